#!/usr/bin/env python3
"""Regenerate the seeded-change table of DESIGN.md (between the SEEDED-BEGIN / SEEDED-END markers)
from /verif/seeded/*/meta.json.  The table is documentation only; no check reads it."""
import glob
import json
import os
import re
import sys

ROOT = os.path.dirname(os.path.dirname(os.path.abspath(__file__)))
rows = []
for d in sorted(glob.glob(os.path.join(ROOT, "seeded", "*"))):
    mp = os.path.join(d, "meta.json")
    if not os.path.exists(mp):
        continue
    m = json.load(open(mp))
    name = os.path.basename(d)
    det = m.get("detected", {})
    rows.append((name, m.get("change", "").replace("|", "/"), det.get("quick", "?"),
                 det.get("class", "").replace("|", " / "), det.get("note", "").replace("|", "/")))

lines = ["| Seeded change | What it does | Quick check | First violation class reported | Note |", "|---|---|---|---|---|"]
for r in rows:
    lines.append("| `%s` | %s | %s | %s | %s |" % (r[0], r[1], r[2], ("`" + r[3] + "`") if r[3] else "", r[4]))
table = "\n".join(lines)

p = os.path.join(ROOT, "DESIGN.md")
s = open(p).read()
if "SEEDED_TABLE" in s:
    s = s.replace("SEEDED_TABLE", "<!-- SEEDED-BEGIN -->\n" + table + "\n<!-- SEEDED-END -->")
else:
    s = re.sub(r"<!-- SEEDED-BEGIN -->.*?<!-- SEEDED-END -->",
               lambda _: "<!-- SEEDED-BEGIN -->\n" + table + "\n<!-- SEEDED-END -->", s, flags=re.S)
open(p, "w").write(s)
print("%d seeded changes, %d caught by the quick tier" % (len(rows), sum(1 for r in rows if r[2].startswith("caught"))))
