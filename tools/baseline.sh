#!/bin/bash
# Runs the repository's own test suite (guard off: plain CMake build) and compares with the pinned stable list.
set -u
cd /repo
cmake -G Ninja -B _build >/dev/null 2>&1
cmake --build _build --target check >/tmp/baseline.log 2>&1
python3 - <<'PY'
import json,re
base=json.load(open('/root/.vp/BASELINE.json'))
stable=set(n.split('::')[0] for n in base['stable_pass'])
log=open('/tmp/baseline.log').read()
passed=set(re.findall(r'Test\s+#\d+:\s+(\S+)\s+\.+\s+Passed',log))
failed=set(re.findall(r'Test\s+#\d+:\s+(\S+)\s+\.+\*+(?:Failed|Exception|Timeout|Not Run)',log))
missing=sorted(stable-passed)
print("stable tests passing: %d/%d"%(len(stable&passed),len(stable)))
if missing: print("NOT PASSING:",missing)
print("other failures (expected always-fail):",sorted(failed-stable))
raise SystemExit(1 if missing else 0)
PY
