#!/usr/bin/env python3
"""Keeps known_findings.json's fixed entries pointing at existing /repo commits (hashes change when a fix is
amended or squashed) and reports fix: commits that no entry mentions.  Run by hand."""
import json, subprocess
p='/verif/known_findings.json'
j=json.load(open(p))
log=[l.split(' ',1) for l in subprocess.check_output(['git','-C','/repo','log','--format=%h %s']).decode().splitlines()]
by_hash=dict(log)
subjects={s:h for h,s in log}
changed=0
for f in j['findings']:
    if f.get('status')!='fixed': continue
    if f.get('commit') in by_hash:
        f['subject']=by_hash[f['commit']]
        continue
    subj=f.get('subject')
    if subj and subj in subjects:
        new=subjects[subj]
        f['what']=f['what'].replace(f['commit'],new); f['commit']=new; changed+=1
    else:
        print("UNRESOLVED:",f.get('commit'),f['what'][:80])
mentioned=set(f.get('commit') for f in j['findings'])
for h,s in log:
    if s.startswith('fix:') and h not in mentioned:
        print("NOT MENTIONED:",h,s)
json.dump(j,open(p,'w'),indent=1)
print("updated",changed)
