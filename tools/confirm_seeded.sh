#!/bin/bash
# usage: confirm_seeded.sh <property> <mutant-dir> <scratch-worktree>
# 1. confirms in the scratch worktree (reset to /repo's HEAD) that the mutant compiles, keeps the stable baseline tests
#    green and makes its demo fail, and that the demo passes without it;
# 2. runs the property's quick check (from a private copy of /verif) against the mutated scratch tree.
# Writes <mutant-dir>/confirm.log and prints one summary line.
set -u
PROP="$1"; MDIR="$2"; WT="$3"
LOG="$MDIR/confirm.log"; : > "$LOG"
HEAD=$(git -C /repo rev-parse HEAD)
cd "$WT" || exit 2
git checkout -q -- . 2>>"$LOG"; git checkout -q --detach "$HEAD" 2>>"$LOG"
apply_ok=no; tests_ok=no; demo_fails=no; demo_passes=no; check_result=none
if git apply --check "$MDIR/patch.diff" 2>>"$LOG"; then apply_ok=yes; else apply_ok=3way; fi
git apply --3way "$MDIR/patch.diff" >>"$LOG" 2>&1 || { echo "$PROP $(basename $MDIR): patch does not apply"; exit 1; }
git reset -q 2>/dev/null
stable=$(python3 -c "import json;print(' '.join(n.split('::')[0] for n in json.load(open('/root/.vp/BASELINE.json'))['stable_pass']))")
( cmake -G Ninja -B _build -S . >/dev/null 2>&1; cmake --build _build --target check ) > "$MDIR/tests_with.log" 2>&1
missing=""
for t in $stable; do grep -qE "Test +#[0-9]+: $t \.+ +Passed" "$MDIR/tests_with.log" || missing="$missing $t"; done
[ -z "$missing" ] && tests_ok=yes || tests_ok="no($missing)"
if [ -f "$MDIR/build_demo.sh" ]; then ( cd "$MDIR" && bash ./build_demo.sh ) >"$MDIR/demo_with.log" 2>&1; rc=$?; [ $rc -ne 0 ] && demo_fails=yes || demo_fails="no(rc=0)"; fi
# the check, against the mutated tree
VCOPY=/tmp/verif_mut_$PROP
rm -rf "$VCOPY"; mkdir -p "$VCOPY"; git -C /verif archive HEAD | tar -x -C "$VCOPY"; rm -rf "$VCOPY/replays" "$VCOPY/evidence"; mkdir -p "$VCOPY/replays" "$VCOPY/evidence"  # the committed state: edits in progress do not leak in
( cd "$VCOPY" && SOUNDSWALLOWER_REPO="$WT" timeout 1500 ./check "$PROP" quick ) > "$MDIR/check_with.log" 2>&1; crc=$?
check_result="exit=$crc"
grep -m3 -A2 "^VIOLATION" "$MDIR/check_with.log" >> "$LOG"
# revert and confirm the demo passes
git checkout -q -- . ; git clean -q -fd src include 2>/dev/null
( cmake --build _build ) >/dev/null 2>&1
if [ -f "$MDIR/build_demo.sh" ]; then ( cd "$MDIR" && bash ./build_demo.sh ) >"$MDIR/demo_without.log" 2>&1; rc=$?; [ $rc -eq 0 ] && demo_passes=yes || demo_passes="no(rc=$rc)"; fi
rm -rf "$VCOPY"
echo "$PROP $(basename $MDIR): apply=$apply_ok tests=$tests_ok demo_fails_with=$demo_fails demo_passes_without=$demo_passes check=$check_result" | tee -a "$LOG"
