#!/usr/bin/env python3
"""Writes /verif/MANIFEST.json from the table below (run by hand when the table changes)."""
import json, os
V = os.path.dirname(os.path.dirname(os.path.abspath(__file__)))

TECH = "deterministic simulation with fault injection (seeded schedule/fault search, reference model, ddmin replay)"

CHECKS = {
 "C20": dict(level="exploration", ref="6/C20",
   text="Seeded operation histories (<=400 ops) over key pools constructed to collide, stepped in lock-step with a std::map reference model under ASan; "
        "every return value, lookup, entry count, iteration and list export is compared after every operation. Sampling, not proof.",
   note="Trusts the reference map and the harness; equality in a case-insensitive table is equality after folding ASCII case, for binary keys as for strings (colliding case pairs are searched for).",
   technique=TECH + "; lock-step reference map over operation histories"),
}

CHECKS["C15"] = dict(level="exploration", ref="6/C15",
   text="Seeded per-frame VAD decision scripts (injected through the link-time wrapped classifier; 10% of runs use the real WebRTC VAD with decisions recorded) x endpointer "
        "configurations x end-of-stream points; an exact queue model is stepped in lock-step, every returned frame is byte-compared with the frame the model names, "
        "timestamps and state after every call; exact-size heap frames under ASan. Sampling, not proof.",
   note="Trusts the queue model (thresholds floor(ratio*L) / floor((1-ratio)*L+1/2)) and the reading of end_stream as 'leading run of queued speech frames'.",
   technique=TECH + "; lock-step queue model over scripted VAD decision sequences")
CHECKS["C06"] = dict(level="exploration", ref="6/C06",
   text="Seeded schedules (chunk cuts down to 1 sample, per-call output capacity incl. 0, count-only queries, int16/float32 entry, re-buffered remainders) x front-end configuration swarm x "
        "1-3 utterances on one fe_t (incl. input byte order other than the host's); frames must be bit-identical to a one-call execution on a pristine fe_t of the same build, frame count must equal an independent formula, "
        "every buffer is exact-size under ASan. Sampling, not proof.",
   note="The reference is the build under test under the canonical schedule: an error that is the same under every schedule is out of scope (the property is an invariance). Dither off.",
   technique=TECH + "; differential against the canonical schedule of the same build")

DEC_NOTE = ("Trusts the harness oracles; the acoustic models, dictionaries and recordings are the repository's own. Utterances are <= 3 s; compared utterances <= 290 frames "
            "with the CMN state set from text first (the property's own restriction). Sampling, not proof.")
CHECKS["C01"] = dict(level="exploration", ref="6/C01",
   text="Seeded plans over a forked template decoder: generated FSG/JSGF/alignment grammars with an independent reference automaton, matching and mismatching audio from the "
        "simulated channel (cut mid-word, reversed, noise, silence, clipped, dropouts), beam/filler/alternate knobs, chunked feeding with partial queries; every partial result must be "
        "a path prefix and every final result a sentence of the reference automaton (or no hypothesis at all).",
   note=DEC_NOTE, technique=TECH + "; reference NFA built from the generator's own structure")
CHECKS["C03"] = dict(level="exploration", ref="6/C03",
   text="Same world as C01 plus utterances of 0..few frames and circular buffering: on every partial and final record the tiling rules, null-marker rule, hypothesis = base forms of "
        "segment words, exact integer identity sum(ascr+lscr) = path score, and frames searched (process returns + end_utt) = independent frame-count formula.",
   note=DEC_NOTE, technique=TECH + "; invariant monitors over every record of a scheduled execution")
CHECKS["C07"] = dict(level="exploration", ref="6/C07",
   text="One probe utterance per run executed under a seeded schedule (cuts down to single samples, first chunk shorter than a window, int16/float32, buffered no_search chunks, "
        "grow/circular feature buffer, interleaved partial queries incl. alignment) and compared field by field (hypothesis, score, every segment field, frame count, three "
        "alignment levels) with the canonical one-call execution computed in a pristine sibling process of the same build.",
   note=DEC_NOTE + " The reference is the build under test: an error common to all schedules is out of scope (invariance property).",
   technique=TECH + "; differential against the canonical schedule in a pristine forked sibling")
CHECKS["C08"] = dict(level="exploration", ref="6/C08",
   text="1-3 decoders with 0-4 earlier utterances each (any grammar, audio, streaming or batch, ended with or without hypothesis, CMN set or carried), grammar switches, all "
        "interleaved call by call by the seeded scheduler; then a probe utterance decoded twice whose full record must equal that of a pristine sibling process given only the "
        "configuration, the last accepted grammar, the CMN text and the audio (batch class: no CMN reset). A quarter of the plans CREATE their decoders inside the run (frequency-warping "
        "options, big-endian input) after a creation history of front ends made and freed with other settings, the sibling creating the same decoder in a pristine process; one probe "
        "in four is preceded by a filler utterance sized from the decoder's own ring position so that the probe ends where the live feature ring wraps.",
   note=DEC_NOTE, technique=TECH + "; differential against a pristine forked sibling after seeded histories on several live decoders")

CHECKS["C17"] = dict(level="fault_enumeration", ref="6/C17",
   text="Storage faults injected into every acoustic-model file of both bundled models through the simulated file store (exact-size heap images under ASan): missing file, "
        "truncation at byte k, each located int32 header field := corruption value, bit flips, zeroed/duplicated/deleted blocks, swapped byte-order marker; init via decoder_init, "
        "decoder_create+reinit or the in-memory *_s3file sequence; whatever is returned is used and freed; then faults are cleared, the intact model is initialised and must decode a "
        "canary utterance exactly as an undisturbed decoder. Thorough tier enumerates the field x value and truncation lists completely (about 12k cases), then samples; quick samples.",
   note="Allocation failure is not injected; absurd allocation sizes are capped by the sanitizer allocator so that they surface as the library's own exit. Leaks on failed loads "
        "are not asserted. One plan in five (and four edge plans per file) goes through the real src/mmio.c over a memory-backed file, the refused load repeated 12 times under a "
        "budget of 10 spare descriptors; the other plans replace mmap by the exact-size heap store (a page-padded mapping would hide a one-byte over-read).",
   technique=TECH + "; fault enumeration over stored artefacts behind link-time file seams")

CHECKS["C04"] = dict(level="exploration", ref="6/C04",
   text="decoder_alignment requested at plan-chosen points (mid-utterance on partial results, twice in a row, after more audio, after end_utt; grow/circular buffering; compallsen and "
        "default scoring; the same audio again under another text, other audio of the same length under the same text, twin whole-utterance feeds): every non-NULL alignment is checked against the segmentation read at the same instant, the dictionary pronunciations, the model's emitting states (the senones of the nearest triphone in the model definition, "
        "contexts taken across word boundaries), the partition / contiguity / positive-duration rules and exact score additivity; the word-score = first-pass-score clause is evaluated only where it is well defined (compallsen, "
        "wip=pip=1, pruning disabled).",
   note=DEC_NOTE + " Two structural exceptions to the word-score clause are recorded as known findings (one-phone words, last word of a result).",
   technique=TECH + "; invariant monitors over alignments requested at scheduled instants")
CHECKS["C10"] = dict(level="fault_enumeration", ref="6/C10",
   text="Valid artefacts (generated JSGF/FSG, dictionary and filler-dictionary excerpts, JSON/key-value configuration, feat_params.json, alignment text, word+pronunciation, CMN text) damaged "
        "by structured mutations and handed over either as STORED files through the simulated file layer (mmio image / fopen stream, with short reads and EIO at byte k, JSGF imports) "
        "in-memory strings, the fsg/jsgf configuration keys at decoder_init or the buffer-based init sequence; whatever the library returns is used (grammar activated + decode, config -> fe/feat init, dictionary lookups) and freed; terminates within a "
        "watchdog, no memory error / assert / exit.",
   note="Simulation proper applies to the stored artefacts (file-layer faults); the in-memory string half rides on the same corruptor and is mutated-argument testing (a coverage-guided "
        "fuzzer would be the better tool there and is not built). One known finding (null-transition closure blow-up), identified by the measured hang site.",
   technique=TECH + "; storage-fault injection on text artefacts behind the file seams plus structured text mutation")

CHECKS["C11"] = dict(level="exploration", ref="6/C11",
   text="decoder_lattice requested at plan-chosen instants (mid-utterance, after the end, twice without new audio; narrow beams / truncated audio so that the best path misses the "
        "final state): single start/end, every node on a start-to-end path, acyclic, time adjacency of every link (with the connector-node reading for <s>/</s>), labels along ANY "
        "path form a path of the independent reference automaton (product construction), first-best segmentation is a lattice path, second request returns the same object.",
   note=DEC_NOTE + " Word beams wider than the default are not used in this profile (lattice construction is quadratic in word exits; performance is out of scope).",
   technique=TECH + "; graph invariants and lattice x reference-NFA product on lattices taken at scheduled instants")
CHECKS["C12"] = dict(level="exploration", ref="6/C12",
   text="N-best iterators consumed to plan-chosen lengths (abandoned or run dry) on lattices taken at plan-chosen instants: non-increasing scores, every entry the word sequence of a "
        "start-to-end lattice path with a node walk along links that begins at the start node; lattice_posterior asked twice in a row repeats; lattice_bestpath = independent longest-path DP; link and best-path posteriors <= 1 within the log-add rounding "
        "bound; forward total = backward total. Borderline for the technique: the schedule decides where lattices are taken and how far iterators run; the numeric clauses are "
        "invariants of each lattice reached.",
   note=DEC_NOTE, technique=TECH + "; invariant monitors over N-best iterators and forward-backward on scheduled lattices")

CHECKS["C14"] = dict(level="exploration", ref="6/C14",
   text="decoder_result_json requested at plan-chosen instants (before any utterance, right after start_utt, on filler-only / partial / final results), levels 0/1/2, start offsets "
        "incl. negative and 1e6, frame rates 50/100/125, with hostile word spellings (quotes, backslashes, control bytes, non-ASCII UTF-8) injected through decoder_add_word and "
        "forced into results by alignment texts: strict RFC 8259 validation, strlen+1 = allocation size (sanitizer allocator interface), field-by-field agreement with "
        "hypothesis / segmentation / alignment read at the same instant. Borderline for the technique: the schedule decides the instants; the format clauses ride along.",
   note=DEC_NOTE + " Word spellings are valid UTF-8 (invalid byte sequences cannot be represented in JSON at all).",
   technique=TECH + "; strict JSON validation and interface agreement at scheduled instants")

CHECKS["C16"] = dict(level="exploration", ref="6/C16",
   text="Histories of decoder_add_word (new words, numbered alternates, duplicates, unknown phone, alternate without base, empty word / pronunciation, 1-12 phones, 4200 bulk additions "
        "across the table growth) interleaved with lookups, grammar loads, alignment texts using the new words and short utterances; a reference map (spelling -> pronunciation, "
        "alternates per base) is stepped in lock-step and compared with lookups, ids, base links, alternate chains read off the public dict_t, dictionary size and 24 sampled old words "
        "after every addition, the context tables of every touched word against the model definition, and every known alternate of a grammar word in the loaded "
        "grammar's vocabulary; a rejected addition (incl. one made with update inside a running utterance) must leave all of it unchanged; hypotheses report base spellings (C03 monitor).",
   note=DEC_NOTE, technique=TECH + "; lock-step reference map over dictionary mutation histories")

CHECKS["C09"] = dict(level="exploration", ref="6/C09",
   text="Decoders created INSIDE the run and driven by seeded histories of public API calls from logical producer/observer/mutator tasks (grammars incl. refused ones, words, "
        "start/feed/end in chunks, hypotheses, segment/N-best/alignment iterators finished, abandoned or freed early, lattices with best path / posterior / posterior pruning down to nothing / node and link iterators / N-best again, alignments walked by index on all three levels (goto inside, last, past the end; children), JSON, CMN, retain/free, reinit), ~15% out-of-order or "
        "degenerate calls (28 kinds, incl. grammar / add_word inside an utterance and reinitialisations refused at the front-end, model or dictionary stage), decoder_free mid-utterance, and a seeded crash point after which every reference is released. Oracle: no abnormal termination (ASan), "
        "documented failure values, the canary utterance still decodes to the canary record on every surviving decoder (bounded liveness once misuse stops), and an allocation "
        "ledger (sanitizer malloc/free hooks armed only while a library call is on the stack) empty after the last release, leak site taken from ASan's allocation stack.",
   note=DEC_NOTE + " Allocation failure is not injected. decoder_process on an idle decoder may return 0 instead of the documented <0.",
   technique=TECH + "; API-history search with misuse injection, crash points and an allocation ledger")

CHECKS["C18"] = dict(level="exploration", ref="6/C18",
   text="The hostile audio channel (silence, full-scale square, impulses, DC, noise at several levels, alternating silence/noise, speech with dropouts/clipping/bursts, float input up "
        "to 1e6 x full scale, long streams: 30 s quick / 4 min thorough) over 2-6 utterances (streamed or whole-utterance batch feeds; a template whose own feature-parameter file really switches variance normalisation on) with CMN carried and exported/imported, run against a library built with UBSan "
        "signed-integer-overflow and float-cast-overflow armed: every cepstral value (decoder's front end and a second front end with another configuration: noise/DC removal, log-spectrum, transform, lifter) and dynamic-feature value finite, CMN text finite, a text-level fixpoint and stable under recomputation from the imported state, every senone score of "
        "every frame in range with best = 0 (compallsen), path scores <= 0 and above the floor, first and second (alignment) pass free of signed overflow.",
   note=DEC_NOTE + " Only the undefined behaviour the property names is armed (no shift/alignment checks: negative left shifts are pervasive and benign here).",
   technique=TECH + "; audio-channel fault injection with range/finite-value monitors under UBSan")

NA = {
 "C02": "pure function of grammar, dictionary, model and frame scores: no schedule, fault, history or crash point; needs an independent max-plus reference (differential testing), another technique family",
 "C05": "pure function of one JSGF text (a compiler-correctness property): nothing to schedule or fault; language enumeration against a JSGF interpreter is the right tool",
 "C13": "pure functions of one grammar object; the write/read round trip has no fault clause, so the simulated file layer has nothing to decide",
 "C19": "pure function of two integers and a table; exhaustive enumeration is the right tool, simulation adds nothing",
}
PENDING = {}

def main():
    props = [json.loads(l) for l in open(os.path.join(V, "properties.jsonl"))]
    checks = []
    for p in props:
        pid = p["id"]
        if pid in CHECKS:
            c = CHECKS[pid]
            checks.append({
                "property_id": pid,
                "quick_cmd": f"./check {pid} quick",
                "thorough_cmd": f"./check {pid} thorough",
                "evidence_file": f"/verif/evidence/{pid}.json",
                "replay_cmd_template": "./check --replay {path}",
                "engine": "sim",
                "level_claimed": {"category": c["level"], "text": c["text"], "design_ref": "DESIGN.md section " + c["ref"]},
                "level_note": c["note"],
                "technique": c["technique"],
            })
    na = []
    for p in props:
        pid = p["id"]
        if pid in CHECKS:
            continue
        if pid in NA:
            na.append({"property_id": pid, "reason": NA[pid]})
        else:
            na.append({"property_id": pid, "reason": PENDING.get(pid, "not claimed yet: the simulated check for this property is designed (DESIGN.md section 6) but not built/validated at this commit")})
    m = {
        "version": 1,
        "setup_cmd": "make -r -j16 -C /verif setup",
        "hooks": {
            "guard": "SOUNDSWALLOWER_VERIF",
            "enable": "checks compile /repo/src with -DSOUNDSWALLOWER_VERIF (Makefile GUARD); no hook exists in /repo: all seams are the public API, public structs and link-time --wrap of mmio_file_*, fopen, vad_classify",
            "baseline_off_cmd": "cd /repo && cmake -G Ninja -B _build >/dev/null && cmake --build _build --target check",
            "source_commits": [],
            "add_only": True,
        },
        "engines": [{
            "name": "sim", "path": "/verif/sim",
            "serves_properties": sorted(CHECKS),
            "kind_free_text": "single-process deterministic simulator: seeded plan generation, cooperative logical tasks over the real library objects, "
                              "simulated file store / audio channel / VAD behind link-time seams, forked children under ASan, reference models, ddmin minimiser, replay files",
        }],
        "checks": checks,
        "not_applicable": na,
        "notes": "See DESIGN.md. ./check exits 0 (held), 1 (VIOLATION line + replay file), 2 (harness fault). known_findings.json lists recorded and fixed defects.",
    }
    json.dump(m, open(os.path.join(V, "MANIFEST.json"), "w"), indent=1)
    print("wrote MANIFEST.json:", len(checks), "checks,", len(na), "not claimed")

if __name__ == "__main__":
    main()
