#!/usr/bin/env python3
"""store_seeded.py <PROP> <name> <mutant-dir> <change> <needs>: copy a confirmed sub-agent change into /verif/seeded."""
import json, os, shutil, sys
prop, name, src, change, needs = sys.argv[1:6]
root = os.path.dirname(os.path.dirname(os.path.abspath(__file__)))
dst = os.path.join(root, "seeded", "%s-%s" % (prop, name))
os.makedirs(dst, exist_ok=True)
for f in os.listdir(src):
    p = os.path.join(src, f)
    if os.path.isfile(p) and os.path.getsize(p) < 200000 and not f.endswith(".log") and not os.access(p, os.X_OK) or f in ("build_demo.sh",):
        shutil.copy(p, dst)
summary = ""
cl = os.path.join(src, "confirm.log")
if os.path.exists(cl):
    lines = [l.strip() for l in open(cl, errors="replace") if l.startswith(prop + " ")]
    summary = lines[-1] if lines else ""
meta = {
    "property": prop,
    "change": change,
    "needs_to_manifest": needs,
    "origin": "written by an independent sub-agent given only the property text and a scratch worktree",
    "confirmed_by_me": "tools/confirm_seeded.sh in a scratch worktree reset to /repo HEAD: patch applies, all 30 stable baseline tests pass with it, demo fails with it and passes without it",
    "confirm_summary": summary,
}
json.dump(meta, open(os.path.join(dst, "meta.json"), "w"), indent=1)
print(dst, summary)
