#!/bin/bash
# Sensitivity run: every seeded change under /verif/seeded (or the ones named) is applied to a scratch worktree of
# /repo's HEAD, the property's quick check is run against that tree from a private copy of /verif (so /verif/evidence
# and /verif/replays are not touched), and the outcome is recorded in seeded/<id>/meta.json under "detected".
# usage: tools/run_seeded.sh [--seed S] [--tier quick|thorough] [seeded-dir-name ...]
set -u
SEED=1; TIER=quick
while [ $# -gt 0 ]; do case "$1" in --seed) SEED=$2; shift 2;; --tier) TIER=$2; shift 2;; *) break;; esac; done
VERIF=$(cd "$(dirname "$0")/.." && pwd)
WT=/tmp/wt_seeded; VCOPY=/tmp/verif_seeded
names=("$@"); [ ${#names[@]} -eq 0 ] && names=($(ls "$VERIF/seeded"))
git -C /repo worktree remove --force "$WT" 2>/dev/null; rm -rf "$WT"
git -C /repo worktree add -q --detach "$WT" HEAD || exit 2
rm -rf "$VCOPY"; mkdir -p "$VCOPY"
git -C "$VERIF" archive HEAD | tar -x -C "$VCOPY"; rm -rf "$VCOPY/replays" "$VCOPY/evidence"; mkdir -p "$VCOPY/replays" "$VCOPY/evidence"  # the committed state
for n in "${names[@]}"; do
    d="$VERIF/seeded/$n"; [ -f "$d/patch.diff" ] || continue
    prop=${n%%-*}
    # a change whose effect belongs to another property's ground names the check that decides it
    cp=$(python3 -c "import json,sys; print(json.load(open(sys.argv[1])).get('check_property',''))" "$d/meta.json" 2>/dev/null); [ -n "$cp" ] && prop=$cp
    git -C "$WT" reset -q --hard HEAD; git -C "$WT" clean -q -fd src include 2>/dev/null
    if ! git -C "$WT" apply "$d/patch.diff" 2>/dev/null; then
        # written against an older tree: try a three-way merge; a conflict means the code it changes was repaired since
        if ! git -C "$WT" apply --3way "$d/patch.diff" >/dev/null 2>&1 || [ -n "$(git -C "$WT" diff --name-only --diff-filter=U)" ]; then
            git -C "$WT" reset -q --hard HEAD
            python3 - "$d/meta.json" <<'EOF2'
import json, sys
m = json.load(open(sys.argv[1]))
m.setdefault("detected", {})["quick"] = "n/a (the patch no longer applies: the code it changes was repaired after it was written; see earlier entry in git history of this file)"
json.dump(m, open(sys.argv[1], "w"), indent=1)
EOF2
            echo "$n: patch no longer applies"
            continue
        fi
        git -C "$WT" reset -q
    fi
    t0=$(date +%s)
    ( cd "$VCOPY" && VERIF_SEED=$SEED SOUNDSWALLOWER_REPO="$WT" timeout 3000 ./check "$prop" "$TIER" ) > "$VCOPY/out.log" 2>&1; rc=$?
    t1=$(date +%s)
    python3 - "$d/meta.json" "$VCOPY/out.log" "$rc" "$SEED" "$TIER" "$((t1-t0))" <<'EOF'
import json, re, sys
meta, log, rc, seed, tier, wall = sys.argv[1:7]
m = json.load(open(meta))
txt = open(log, errors="replace").read()
cls = [l.strip() for l in txt.splitlines() if l.startswith("  class ") and " NEW runs=" in l]
viol = [l for l in txt.splitlines() if l.startswith("VIOLATION")]
first = ""
if cls:
    best = max(cls, key=lambda l: int(re.search(r"NEW runs=(\d+)", l).group(1)))
    first = re.match(r"class (.*?)\s+NEW runs=", best).group(1)
    if len(cls) > 1:
        first += " (+%d more)" % (len(cls) - 1)
det = m.setdefault("detected", {})
key = tier if tier != "quick" else "quick"
if int(rc) == 1 and viol:
    det[key] = "caught (exit 1, %d VIOLATION line%s, seed %s, %s s incl. rebuild)" % (len(viol), "" if len(viol) == 1 else "s", seed, wall)
    det["class"] = first
elif int(rc) == 0:
    det[key] = "MISSED (exit 0, seed %s)" % seed
else:
    det[key] = "harness exit %s" % rc
json.dump(m, open(meta, "w"), indent=1)
print(meta.split("/")[-2], det[key], first)
EOF
done
git -C /repo worktree remove --force "$WT"; rm -rf "$VCOPY" "$VERIF/build/alt_tmp_wt_seeded"
