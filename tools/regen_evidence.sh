#!/bin/bash
# Regenerates every evidence file from /verif against /repo itself (quick tier, VERIF_SEED=1, the way the harness calls
# the checks), validates them against the schema and prints one line per check.  Exit 0 only if every check exited 0.
set -u
cd /verif
export VERIF_SEED=${VERIF_SEED:-1} VERIF_TIER=quick
unset SOUNDSWALLOWER_REPO VERIF_ROOT
rc_all=0
for p in $(python3 -c "import json;print(' '.join(c['property_id'] for c in json.load(open('MANIFEST.json'))['checks']))"); do
    rm -f evidence/$p.json
    t0=$(date +%s)
    ./check $p quick > /tmp/regen_$p.log 2>&1; rc=$?
    t1=$(date +%s)
    kf=$(grep -c "^KNOWN-FINDING" /tmp/regen_$p.log)
    v=$(grep -c "^VIOLATION" /tmp/regen_$p.log)
    echo "$p exit=$rc violations=$v known_finding_lines=$kf wall=$((t1-t0))s evidence=$([ -s evidence/$p.json ] && echo written || echo MISSING)"
    [ $rc -ne 0 ] && rc_all=1
done
python3-vt - <<'PY' || rc_all=1
import json, glob, sys
import jsonschema
schema = json.load(open('/root/.vp/EVIDENCE.schema.json'))
bad = 0
for f in sorted(glob.glob('/verif/evidence/*.json')):
    try:
        jsonschema.validate(json.load(open(f)), schema)
    except Exception as e:
        print("SCHEMA", f, str(e)[:200]); bad += 1
m = json.load(open('/verif/MANIFEST.json'))
jsonschema.validate(m, json.load(open('/root/.vp/MANIFEST.schema.json')))
print("schemas ok" if not bad else "%d evidence files invalid" % bad)
sys.exit(1 if bad else 0)
PY
exit $rc_all
