# Builds the library under test from /repo's *current working tree* (or $SOUNDSWALLOWER_REPO) plus the
# simulator.  MUST be run with `make -r` (no built-in rules: GNU make's lex/yacc rules would otherwise
# regenerate jsgf_scanner.c / jsgf_parser.c).  Nothing is written outside /verif/build.
.SUFFIXES:
MAKEFLAGS += -r
SHELL := /bin/bash

VERIF := $(abspath $(dir $(lastword $(MAKEFILE_LIST))))
REPO ?= $(if $(SOUNDSWALLOWER_REPO),$(SOUNDSWALLOWER_REPO),/repo)
VARIANT ?= asan
BTAG := $(if $(filter /repo,$(REPO)),main,alt$(subst /,_,$(REPO)))
B := $(VERIF)/build/$(BTAG)/$(VARIANT)
GUARD := -DSOUNDSWALLOWER_VERIF

SAN_asan := -fsanitize=address
SAN_asanub := -fsanitize=address -fsanitize=signed-integer-overflow,float-cast-overflow -fno-sanitize-recover=undefined
SAN_plain :=
CC_asan := clang
CC_asanub := clang
CC_plain := gcc
CXX_asan := clang++
CXX_asanub := clang++
CXX_plain := g++
OPT_asan := -O1
OPT_asanub := -O1
OPT_plain := -O2

CC := $(CC_$(VARIANT))
CXX := $(CXX_$(VARIANT))
SAN := $(SAN_$(VARIANT))
OPT := $(OPT_$(VARIANT))
COMMON := $(OPT) -g -fno-omit-frame-pointer $(SAN) $(GUARD)
LIBCFLAGS := $(COMMON) -w -DHAVE_CONFIG_H -I$(REPO)/include -I$(REPO)/src -I$(VERIF)/sim/config
SIMCXXFLAGS := $(COMMON) -std=c++17 -Wall -Wno-unused-function -DHAVE_CONFIG_H -I$(REPO)/include -I$(REPO)/src -I$(VERIF)/sim/config -I$(VERIF)/sim
WRAPS := -Wl,--wrap=mmio_file_read,--wrap=mmio_file_unmap,--wrap=mmio_file_ptr,--wrap=mmio_file_size,--wrap=fopen,--wrap=vad_classify

LIBSRC := $(sort $(wildcard $(REPO)/src/*.c) $(wildcard $(REPO)/src/common_audio/*/*.c))
LIBOBJ := $(patsubst $(REPO)/%.c,$(B)/obj/%.o,$(LIBSRC))
SIMSRC := $(sort $(wildcard $(VERIF)/sim/*.cc))
SIMOBJ := $(patsubst $(VERIF)/sim/%.cc,$(B)/simobj/%.o,$(SIMSRC))

.PHONY: build setup clean all-variants
build: $(B)/sim

setup:
	$(MAKE) -r -C $(VERIF) build VARIANT=asan
	$(MAKE) -r -C $(VERIF) build VARIANT=asanub
	$(MAKE) -r -C $(VERIF) build VARIANT=plain

$(B)/obj/%.o: $(REPO)/%.c
	@mkdir -p $(dir $@)
	$(CC) $(LIBCFLAGS) -MMD -MP -c $< -o $@

$(B)/libss.a: $(LIBOBJ)
	@rm -f $@
	ar rcs $@ $(LIBOBJ)

$(B)/simobj/%.o: $(VERIF)/sim/%.cc
	@mkdir -p $(dir $@)
	$(CXX) $(SIMCXXFLAGS) -MMD -MP -c $< -o $@

$(B)/sim: $(SIMOBJ) $(B)/libss.a
	$(CXX) $(COMMON) -o $@ $(SIMOBJ) $(B)/libss.a $(WRAPS) -lm

clean:
	rm -rf $(VERIF)/build

-include $(LIBOBJ:.o=.d) $(SIMOBJ:.o=.d)
