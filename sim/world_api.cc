// API world (C09): arbitrary interleavings of public API calls on decoders created inside the run, protocol-following
// and out of order, with abandoned iterators and a crash point after which every reference is released.  Oracle: no
// abnormal termination, documented failure returns, decoder still usable (canary utterance), and every allocation
// made INSIDE a library call freed by the end (malloc/free hooks of the sanitizer allocator, armed per call).
#include "dec.h"
#include <algorithm>
#include <cmath>
#include <unistd.h>

#if defined(__has_feature)
#if __has_feature(address_sanitizer)
#include <sanitizer/allocator_interface.h>
#define HAVE_ASAN_HOOKS 1
extern "C" void __asan_describe_address(void *addr);
#endif
#endif

namespace sim {
namespace {

using namespace dec;

// ---------------------------------------------------------------- allocation ledger (no malloc inside)
struct Slot {
    const volatile void *p;
    uint32_t size;
    int32_t op;
};
static const size_t LEDGER_N = 1u << 21;
static Slot *g_ledger = nullptr;
static volatile int g_in_lib = 0; // > 0 while a library call is on the stack
static volatile int g_track = 0;  // ledger armed for this run
static volatile int32_t g_cur_op = -1;
static int64_t g_live = 0, g_live_bytes = 0, g_overflow = 0;
static const volatile void *const TOMB = (const volatile void *)1;

static inline size_t slot_of(const volatile void *p) { return (size_t)(((uintptr_t)p >> 4) * 0x9e3779b97f4a7c15ULL >> 43) & (LEDGER_N - 1); }

static void on_malloc(const volatile void *p, size_t size)
{
    if (!g_track || g_in_lib <= 0 || !p)
        return;
    size_t i = slot_of(p);
    for (size_t n = 0; n < LEDGER_N; ++n, i = (i + 1) & (LEDGER_N - 1)) {
        if (g_ledger[i].p == nullptr || g_ledger[i].p == TOMB) {
            g_ledger[i].p = p;
            g_ledger[i].size = (uint32_t)std::min<size_t>(size, 0xffffffffu);
            g_ledger[i].op = g_cur_op;
            g_live++;
            g_live_bytes += (int64_t)size;
            return;
        }
    }
    g_overflow++;
}
static void on_free(const volatile void *p)
{
    if (!g_track || !p)
        return;
    size_t i = slot_of(p);
    for (size_t n = 0; n < LEDGER_N; ++n, i = (i + 1) & (LEDGER_N - 1)) {
        if (g_ledger[i].p == nullptr)
            return;
        if (g_ledger[i].p == p) {
            g_live--;
            g_live_bytes -= g_ledger[i].size;
            g_ledger[i].p = TOMB;
            return;
        }
    }
}

struct InLib {
    InLib() { ++g_in_lib; }
    ~InLib() { --g_in_lib; }
};
#define L(expr) ([&]() { InLib _g; return (expr); }())
#define LV(stmt) do { InLib _g; stmt; } while (0)

struct ApiWorld : World {
    const char *name() const override { return "api"; }
    std::vector<std::string> properties() const override { return { "C09" }; }
    int64_t default_runs(const std::string &, int tier) const override { return tier ? 20000 : 500; }
    int watchdog_s(const std::string &) const override { return 180; }
    std::map<std::string, std::string> canary_ref; // tmpl -> canary record

    static const char *canary_text(const std::string &tmpl) { return lang_of(tmpl) == "fr" ? "avance de dix mètres" : "go forward ten meters"; }
    static std::string canary(decoder_t *d, const std::string &tmpl, bool *ok)
    {
        *ok = false;
        if (L(decoder_set_align_text(d, canary_text(tmpl))) < 0)
            return "set_align_text failed";
        L(decoder_set_cmn(d, "40,3,-1,0,0,0,0,0,0,0,0,0,0"));
        const auto &clip = audio::recording(lang_of(tmpl) == "fr" ? "goforward_fr" : "goforward");
        size_t n = std::min<size_t>(clip.size(), 24000);
        if (L(decoder_start_utt(d)) < 0)
            return "start_utt failed";
        int16_t *heap = (int16_t *)malloc(sizeof(int16_t) * n);
        memcpy(heap, clip.data(), sizeof(int16_t) * n);
        int rv = L(decoder_process_int16(d, heap, n, 0, 0));
        free(heap);
        if (rv < 0)
            return "process failed";
        if (L(decoder_end_utt(d)) < 0)
            return "end_utt failed";
        std::string rec;
        {
            int32 sc = 0;
            const char *h = L(decoder_hyp(d, &sc));
            rec = std::string(h ? h : "(null)") + "/" + std::to_string(sc) + "/";
            for (seg_iter_t *it = L(decoder_seg_iter(d)); it; it = L(seg_iter_next(it))) {
                int sf, ef;
                L((seg_iter_frames(it, &sf, &ef), 0));
                rec += std::string(L(seg_iter_word(it))) + ":" + std::to_string(sf) + "-" + std::to_string(ef) + ",";
            }
        }
        *ok = true;
        return rec;
    }

    void setup(const std::string &, int) override
    {
        vfs::activate(true);
        audio::load_corpus();
        build_languages();
        err_set_loglevel(ERR_ERROR);
        if (!g_ledger) {
            g_ledger = (Slot *)calloc(LEDGER_N, sizeof(Slot));
#ifdef HAVE_ASAN_HOOKS
            if (!__sanitizer_install_malloc_and_free_hooks(on_malloc, on_free)) {
                fprintf(stderr, "HARNESS-FAULT: cannot install allocator hooks\n");
                exit(2);
            }
#endif
        }
        for (const char *t : { "en", "enc", "fr" }) {
            decoder_t *d = make_decoder(t);
            bool ok = false;
            if (d)
                canary_ref[t] = canary(d, t, &ok);
            if (!d || !ok) {
                fprintf(stderr, "HARNESS-FAULT: canary decoder %s failed\n", t);
                exit(2);
            }
            decoder_free(d);
        }
    }

    std::string rule(const std::string &) const override
    {
        return "one run = a forked copy of a worker; 1-2 decoders are created INSIDE the run and driven by a seeded history of public API calls issued by logical producer, observer "
               "and mutator tasks: configure, load generated grammars (incl. refused ones), add words, start/feed/end in chunks, hypotheses, segment iterators (finished, abandoned, "
               "freed early), lattices, N-best iterators (abandoned), alignments (mid-utterance, repeated), JSON at all levels, CMN get/set, retain/free pairs, reinit; about 15% "
               "of the calls are out of order or degenerate (audio before start or after end, start twice, end without start, queries before any utterance or without grammar, "
               "empty strings, decoder_free mid-utterance); at a seeded CRASH POINT the client stops and releases every reference it holds. Oracle: no abnormal termination "
               "(ASan), documented failure values for out-of-order calls, the canary utterance still decodes to the canary record on every surviving decoder, and the ledger of "
               "allocations made inside library calls (sanitizer malloc/free hooks armed per call) is empty after the last release. Non-trivial: at least one utterance was fed and "
               "at least one misuse or abandoned iterator occurred; distinct = distinct plan digest";
    }
    Json components(const std::string &) const override
    {
        Json j = Json::object();
        Json real = Json::array();
        for (const char *f : { "src/decoder.c", "src/fsg_search.c", "src/state_align_search.c", "src/ps_alignment.c", "src/ps_lattice.c", "src/acmod.c", "src/dict.c", "src/dict2pid.c",
                               "src/ckd_alloc.c", "src/listelem_alloc.c", "src/jsgf*.c", "src/fsg_model.c", "src/config.c", "everything decoder_init loads" })
            real.push(f);
        j.set("real", real);
        Json stub = Json::array();
        stub.push("mmio_file_* -> in-memory file store (small dictionaries exist only there)");
        j.set("stub", stub);
        j.set("model", "allocation ledger keyed by pointer (entries made only while a library call is on the stack); canary record from an undisturbed decoder");
        return j;
    }
    std::vector<std::string> assumptions(const std::string &) const override
    {
        return { "borrowed pointers (hypothesis string, lattice, alignment, JSON) and iterators are used only until the next mutating call on that decoder; an N-best iterator is never held across more audio",
                 "decoder_process_* on an idle decoder may return 0 instead of the documented <0 (accepted: '<= 0 and nothing searched')",
                 "allocation failure is not injected (the library's stated policy is to exit on OOM)" };
    }

    // ---- plan generation
    Json generate(const std::string &, uint64_t seed, int tier) override
    {
        (void)tier;
        Rng r(seed);
        Json plan = Json::object();
        plan.set("world", "api");
        plan.set("profile", "C09");
        Json ops = Json::array();
        auto push = [&](Json o, int d) {
            o.set("d", d);
            ops.push(o);
        };
        auto mk = [&](const char *op) {
            Json o = Json::object();
            o.set("op", op);
            return o;
        };
        int nd = r.chance(0.25) ? 2 : 1;
        std::vector<std::string> tm;
        for (int d = 0; d < nd; ++d) {
            tm.push_back(r.chance(0.6) ? "en" : (r.chance(0.5) ? "enc" : "fr"));
            Json c = mk("create");
            c.set("tmpl", tm.back());
            push(c, d);
        }
        int nops = (int)r.range(10, 60);
        double misuse = r.chance(0.7) ? 0.15 : (r.chance(0.5) ? 0.0 : 0.4);
        // the generator follows the protocol state of each decoder so that most calls are legal where they stand
        struct GS { bool grammar = false, in_utt = false; int left = 0; };
        std::vector<GS> gs((size_t)nd);
        auto grammar_op = [&](int d) {
            std::string lng = lang_of(tm[(size_t)d]);
            Json g = mk("grammar");
            std::vector<std::string> prefer = lng == "en" ? prefer_words("goforward") : prefer_words("goforward_fr");
            g.set("g", grammar::gen_any(r, lang(lng).vocab, prefer));
            if (lng != "en" && g["g"]["feat"].dump().find("repo:") != std::string::npos)
                g.set("g", grammar::gen_fsg(r, lang(lng).vocab));
            push(g, d);
            gs[(size_t)d].grammar = true; // (may be refused at run time; the executor copes)
        };
        auto query_op = [&](int d) {
            Json q = mk("query");
            static const std::vector<std::string> what = { "hyp", "seg", "seg_abandon", "seg_free_first", "lattice", "nbest", "nbest_abandon", "align", "align_twice", "json0", "json1", "json2", "prob",
                                                           "n_frames", "times", "get_cmn", "get_cmn_update", "lookup", "config_churn", "lattice_ops" };
            q.set("what", r.pick(what));
            q.set("k", (long long)r.below(6));
            push(q, d);
        };
        for (int i = 0; i < nops; ++i) {
            int d = (int)r.below((uint64_t)nd);
            GS &st = gs[(size_t)d];
            std::string lng = lang_of(tm[(size_t)d]);
            if (r.chance(misuse)) {
                Json m = mk("misuse");
                static const std::vector<std::string> idle_kinds = { "process_idle", "end_idle", "query_no_grammar", "empty_align_text", "unknown_word_align_text", "garbage_jsgf", "empty_jsgf", "add_empty_word",
                                                                     "add_empty_pron", "add_unknown_phone", "lookup_empty", "lookup_unknown", "set_cmn_empty", "set_cmn_garbage", "retain_free", "json_no_utt",
                                                                     "nbest_no_utt", "lattice_no_utt", "align_no_utt", "set_logfile_null", "reinit_bad_dict", "reinit_bad_fe", "reinit_bad_hmm" };
                static const std::vector<std::string> utt_kinds = { "start_twice", "free_mid_utt", "process_zero_samples", "retain_free", "lookup_unknown", "set_cmn_garbage", "start_twice",
                                                                    "grammar_mid_utt", "add_word_mid_utt" };
                std::string kind = st.in_utt ? r.pick(utt_kinds) : r.pick(idle_kinds);
                if (kind == "free_mid_utt" && !r.chance(0.3))
                    kind = "start_twice";
                m.set("kind", kind);
                push(m, d);
                if (kind == "free_mid_utt") {
                    st = GS();
                    Json c = mk("create");
                    c.set("tmpl", tm[(size_t)d]);
                    push(c, d);
                }
                if (kind == "empty_align_text")
                    st.grammar = true;
                if (kind.compare(0, 11, "reinit_bad_") == 0)
                    st.grammar = false;
                continue;
            }
            if (!st.grammar) {
                grammar_op(d);
                continue;
            }
            if (st.in_utt) {
                switch (r.weighted({ 50, 30, st.left <= 0 ? 40 : 8 })) {
                case 0: {
                    Json f = mk("feed");
                    int64_t len = r.pick(std::vector<int> { 1, 100, 409, 410, 1600, 2048, 8000, 24000 });
                    f.set("len", (long long)len);
                    f.set("ns", r.chance(0.15));
                    f.set("f32", r.chance(0.2));
                    push(f, d);
                    st.left -= (int)len;
                    break;
                }
                case 1: query_op(d); break;
                default:
                    push(mk("end"), d);
                    st.in_utt = false;
                }
                continue;
            }
            switch (r.weighted({ 40, 12, 25, 6, 4, 4, 2 })) {
            case 0: {
                Json b = mk("start");
                Json sig = audio::random_spec(r, 24000, r.chance(0.3), r.chance(0.6) ? (lng == "en" ? "goforward" : "goforward_fr") : "");
                push([&] { b.set("sig", sig); return b; }(), d);
                st.in_utt = true;
                st.left = (int)sig.geti("n");
                break;
            }
            case 1: grammar_op(d); break;
            case 2: query_op(d); break;
            case 3: {
                Json a = mk("add_word");
                a.set("word", "zz" + std::to_string(r.below(20)) + (r.chance(0.3) ? "(2)" : ""));
                a.set("phones", r.pick(lang(lng).phones) + " " + r.pick(lang(lng).phones));
                a.set("update", r.chance(0.7));
                push(a, d);
                break;
            }
            case 4: {
                Json c = mk("set_cmn");
                c.set("text", "40,3,-1,0,0,0,0,0,0,0,0,0,0");
                push(c, d);
                break;
            }
            case 5: push(mk("knobs"), d); break;
            default:
                push(mk("reinit"), d);
                st.grammar = false;
            }
        }
        // crash point
        if (r.chance(0.6))
            ops.a.insert(ops.a.begin() + (long)r.range((int64_t)nd, (int64_t)ops.a.size()), [&] {
                Json s = mk("stop_here");
                s.set("d", 0);
                return s;
            }());
        plan.set("ops", ops);
        return plan;
    }

    struct D {
        decoder_t *d = nullptr;
        std::string tmpl;
        bool has_grammar = false, in_utt = false, ever_utt = false;
        std::vector<int16_t> clip;
        size_t fed = 0;
        int extra_refs = 0;
    };

    void execute(const Json &plan, const Ctx &ctx) override
    {
        Outcome &out = *ctx.out;
        // pre-create the bookkeeping entries so that the harness itself does not allocate between the first library
        // call and the final ledger check more than it frees (the ledger only records allocations made inside calls)
        std::vector<D> ds(3);
        std::vector<seg_iter_t *> open_segs;
        std::vector<hyp_iter_t *> open_nbest;
        int fed_utts = 0, misuses = 0, abandoned = 0;
        const auto &ops = plan["ops"].a;
        auto bad = [&](int opi, const char *inv, const std::string &trig, const std::string &msg) { out.violate(std::string("C09.") + inv, "mismatch", trig, msg, opi); };
        memset((void *)g_ledger, 0, LEDGER_N * sizeof(Slot));
        g_live = g_live_bytes = g_overflow = 0;
        g_track = 1;

        auto close_iters = [&]() {
            for (auto *it : open_segs)
                LV(seg_iter_free(it));
            open_segs.clear();
            for (auto *it : open_nbest)
                LV(hyp_iter_free(it));
            open_nbest.clear();
        };

        for (size_t k = 0; k < ops.size(); ++k) {
            const Json &op = ops[k];
            int opi = (int)k;
            ctx.at(opi);
            g_cur_op = opi;
            const std::string &o = op.gets("op");
            size_t di = (size_t)op.geti("d", 0) % ds.size();
            D &s = ds[di];
            out.trace.str(o);
            out.events.str(o);
            if (o == "stop_here")
                break;
            if (o == "create") {
                if (s.d)
                    continue;
                s.tmpl = op.gets("tmpl", "en");
                s.d = L(make_decoder(s.tmpl));
                if (!s.d)
                    bad(opi, "create", "init_failed", "decoder_init of an intact model failed");
                continue;
            }
            if (!s.d)
                continue;
            // any mutating call invalidates iterators and borrowed pointers of that decoder: the protocol-following
            // client lets go of them first (they are RELEASED, not leaked, unless the op abandons them on purpose)
            bool mutating = o != "query";
            if (mutating)
                close_iters();
            if (o == "grammar") {
                if (s.in_utt)
                    continue;
                const Json &g = op["g"];
                int rv = -1;
                const std::string &text = g.gets("text");
                if (g.gets("kind") == "jsgf")
                    rv = L(decoder_set_jsgf_string(s.d, text.c_str()));
                else if (g.gets("kind") == "align")
                    rv = L(decoder_set_align_text(s.d, text.c_str()));
                else {
                    s3file_t *f = L(s3file_init(text.data(), text.size()));
                    fsg_model_t *fsg = L(fsg_model_read_s3file(f, s.d->lmath, 6.5f));
                    L(s3file_free(f));
                    if (fsg)
                        rv = L(decoder_set_fsg(s.d, fsg));
                }
                if (rv == 0)
                    s.has_grammar = true;
                out.events.i64(rv);
            } else if (o == "start") {
                if (s.in_utt || !s.has_grammar)
                    continue;
                s.clip = audio::render(op["sig"], nullptr);
                s.fed = 0;
                int rv = L(decoder_start_utt(s.d));
                out.events.i64(rv);
                if (rv < 0)
                    bad(opi, "protocol_call_succeeds", "start_utt", "decoder_start_utt on an idle decoder with a grammar returned " + std::to_string(rv));
                else {
                    s.in_utt = true;
                    s.ever_utt = true;
                }
            } else if (o == "feed") {
                if (!s.in_utt)
                    continue;
                size_t len = std::min<size_t>((size_t)op.geti("len", 1), s.clip.size() - s.fed);
                int rv;
                if (op.getb("f32")) {
                    float *heap = (float *)malloc(sizeof(float) * (len ? len : 1));
                    for (size_t i = 0; i < len; ++i)
                        heap[i] = (float)s.clip[s.fed + i] / 32768.0f;
                    rv = L(decoder_process_float32(s.d, heap, len, op.getb("ns"), 0));
                    free(heap);
                } else {
                    int16_t *heap = (int16_t *)malloc(sizeof(int16_t) * (len ? len : 1));
                    memcpy(heap, s.clip.data() + s.fed, sizeof(int16_t) * len);
                    rv = L(decoder_process_int16(s.d, heap, len, op.getb("ns"), 0));
                    free(heap);
                }
                s.fed += len;
                out.events.i64(rv);
                if (rv < 0)
                    bad(opi, "protocol_call_succeeds", "process", "decoder_process inside an utterance returned " + std::to_string(rv));
                if (len > 0)
                    fed_utts++;
            } else if (o == "end") {
                if (!s.in_utt)
                    continue;
                int rv = L(decoder_end_utt(s.d));
                out.events.i64(rv);
                s.in_utt = false;
                if (rv < 0)
                    bad(opi, "protocol_call_succeeds", "end_utt", "decoder_end_utt returned " + std::to_string(rv));
                out.sim_seconds += (double)s.fed / 16000.0;
            } else if (o == "query") {
                if (!s.has_grammar)
                    continue;
                const std::string what = op.gets("what");
                int kk = (int)op.geti("k", 1);
                if (what == "hyp") {
                    int32 sc;
                    const char *h = L(decoder_hyp(s.d, &sc));
                    out.events.str(h ? h : "(null)");
                } else if (what == "seg" || what == "seg_abandon" || what == "seg_free_first") {
                    seg_iter_t *it = L(decoder_seg_iter(s.d));
                    if (what == "seg_free_first") {
                        if (it)
                            LV(seg_iter_free(it));
                    } else {
                        int n = 0;
                        while (it) {
                            const char *w = L(seg_iter_word(it));
                            out.events.str(w ? w : "");
                            if (what == "seg_abandon" && ++n > kk) {
                                open_segs.push_back(it); // kept open; released at the next mutating call or at the crash point
                                abandoned++;
                                break;
                            }
                            it = L(seg_iter_next(it));
                        }
                    }
                } else if ((what == "lattice" || what == "lattice_ops" || what == "nbest" || what == "nbest_abandon") && s.d->search &&
                           fsg_history_n_entries(((fsg_search_t *)s.d->search)->history) > 25000) {
                    out.probes["lat.skipped_too_many_word_exits"]++; // (lattice construction time is out of scope, see world_dec.cc)
                } else if (what == "config_churn") {
                    // a configuration object of its own: string values set, overwritten, cleared and set again, then freed
                    config_t *c = L(config_init(NULL));
                    static const char *keys[] = { "hmm", "dict", "fdict", "jsgf", "fsg", "toprule", "cmninit", "featparams", "mdef", "loglevel" };
                    Rng cr((uint64_t)op.geti("k", 0) * 7919 + (uint64_t)opi);
                    for (int q = 0; q < 12; ++q) {
                        const char *key = keys[cr.below(10)];
                        switch (cr.below(4)) {
                        case 0: L(config_set_str(c, key, "/some/where/long/enough/to/matter")); break;
                        case 1: L(config_set_str(c, key, "x")); break;
                        case 2: L(config_set_str(c, key, NULL)); break;
                        default: L(config_str(c, key));
                        }
                    }
                    L(config_free(c));
                    out.probes["api.config_churn"]++;
                } else if (what == "lattice_ops") {
                    // the lattice_* calls a caller can make on the decoder's lattice: best path, posteriors, posterior
                    // pruning from harmless to so tight that nothing survives, and the same calls again afterwards
                    lattice_t *dag = L(decoder_lattice(s.d));
                    out.events.i64(dag ? dag->n_nodes : -1);
                    if (dag) {
                        float32 ascale = (float32)(1.0 / config_float(s.d->config, "ascale"));
                        latlink_t *best = L(lattice_bestpath(dag, ascale));
                        if (best)
                            L(lattice_hyp(dag, best));
                        int32 post = L(lattice_posterior(dag, ascale));
                        out.events.i64(post);
                        // node and link iterators (run dry or freed early), the accessors on what they yield, the
                        // segmentation of the best path (finished or abandoned); once now and once after pruning
                        auto walk = [&](int budget) {
                            int seen = 0;
                            for (latnode_iter_t *ni = L(ps_latnode_iter(dag)); ni; ni = L(ps_latnode_iter_next(ni))) {
                                latnode_t *nd = L(ps_latnode_iter_node(ni));
                                int16 fef = 0, lef = 0;
                                L(latnode_times(nd, &fef, &lef));
                                L(ps_latnode_word(dag, nd));
                                L(ps_latnode_baseword(dag, nd));
                                latlink_t *bl = nullptr;
                                L(ps_latnode_prob(dag, nd, &bl));
                                int k2 = 0;
                                for (latlink_iter_t *li = (seen & 1) ? L(ps_latnode_exits(nd)) : L(ps_latnode_entries(nd)); li; li = L(ps_latlink_iter_next(li))) {
                                    latlink_t *lk = L(ps_latlink_iter_link(li));
                                    int16 sf = 0;
                                    latnode_t *src = nullptr;
                                    L(latlink_times(lk, &sf));
                                    L(ps_latlink_nodes(lk, &src));
                                    L(ps_latlink_word(dag, lk));
                                    L(ps_latlink_baseword(dag, lk));
                                    L(ps_latlink_pred(lk));
                                    int32 as = 0;
                                    L(ps_latlink_prob(dag, lk, &as));
                                    if (++k2 >= 2 && (seen % 3) == 0) { // abandoned: the caller frees it
                                        LV(ps_latlink_iter_free(li));
                                        break;
                                    }
                                }
                                if (++seen >= budget) {
                                    LV(ps_latnode_iter_free(ni));
                                    break;
                                }
                            }
                            out.probes["api.lattice_nodes_walked"] += seen;
                        };
                        walk(kk % 2 ? 1000000 : 5);
                        if (best) {
                            seg_iter_t *sg = L(lattice_seg_iter(dag, best));
                            int ns = 0;
                            while (sg) {
                                L(seg_iter_word(sg));
                                if (++ns == 2 && (kk & 2)) {
                                    LV(seg_iter_free(sg));
                                    break;
                                }
                                sg = L(seg_iter_next(sg));
                            }
                        }
                        lattice_t *mine = (kk & 4) ? L(lattice_retain(dag)) : nullptr;
                        static const int32 beams[] = { -200000, -20000, -5000, -500, -1, 0 };
                        int32 beam = beams[kk % 6];
                        int np = L(lattice_posterior_prune(dag, beam));
                        out.events.i64(np);
                        out.probes[np > 0 ? "api.lattice_pruned_some" : "api.lattice_pruned_none"]++;
                        best = L(lattice_bestpath(dag, ascale));
                        if (best)
                            L(lattice_hyp(dag, best));
                        else
                            out.probes["api.lattice_no_path_after_prune"]++;
                        L(lattice_posterior(dag, ascale));
                        walk(1000000);
                        if (mine)
                            L(lattice_free(mine));
                        hyp_iter_t *it = L(decoder_nbest(s.d));
                        for (int n = 0; it && n < 3; ++n) {
                            int32 sc;
                            L(hyp_iter_hyp(it, &sc));
                            it = L(hyp_iter_next(it));
                        }
                        if (it)
                            LV(hyp_iter_free(it));
                    }
                } else if (what == "lattice") {
                    lattice_t *dag = L(decoder_lattice(s.d));
                    out.events.i64(dag ? dag->n_nodes : -1);
                } else if (what == "nbest" || what == "nbest_abandon") {
                    hyp_iter_t *it = L(decoder_nbest(s.d));
                    int n = 0;
                    while (it) {
                        int32 sc;
                        const char *h = L(hyp_iter_hyp(it, &sc));
                        out.events.str(h ? h : "");
                        seg_iter_t *sg = L(hyp_iter_seg(it));
                        if (sg) {
                            if (n % 2)
                                LV(seg_iter_free(sg));
                            else
                                while (sg)
                                    sg = L(seg_iter_next(sg));
                        }
                        if (++n > kk) {
                            if (what == "nbest_abandon") {
                                open_nbest.push_back(it);
                                abandoned++;
                            } else
                                LV(hyp_iter_free(it));
                            it = nullptr;
                            break;
                        }
                        it = L(hyp_iter_next(it));
                    }
                } else if (what == "align" || what == "align_twice") {
                    alignment_t *al = L(decoder_alignment(s.d));
                    out.events.i64(al ? alignment_n_words(al) : -1);
                    if (what == "align_twice") {
                        al = L(decoder_alignment(s.d));
                        out.events.i64(al ? alignment_n_words(al) : -1);
                    }
                    if (al) {
                        alignment_iter_t *it = L(alignment_words(al));
                        int n = 0;
                        while (it) {
                            L(alignment_iter_name(it));
                            if (++n > kk) {
                                L(alignment_iter_free(it)); // abandoned half-way, released with its free function
                                it = nullptr;
                                break;
                            }
                            it = L(alignment_iter_next(it));
                        }
                        // every level walked by index: goto a position inside, the last, one past the end, further out; past
                        // the end there is no entry, so (like alignment_iter_next) the answer is NULL and the iterator is gone
                        for (int lvl = 0; lvl < 3; ++lvl) {
                            int cnt = lvl == 0 ? L(alignment_n_words(al)) : lvl == 1 ? L(alignment_n_phones(al)) : L(alignment_n_states(al));
                            const int pos_of[] = { 0, cnt - 1, cnt, cnt + 2, cnt / 2, cnt };
                            int pos = pos_of[(kk + lvl) % 6];
                            if (pos < 0)
                                continue;
                            alignment_iter_t *gi = lvl == 0 ? L(alignment_words(al)) : lvl == 1 ? L(alignment_phones(al)) : L(alignment_states(al));
                            if (!gi)
                                continue;
                            gi = L(alignment_iter_goto(gi, pos));
                            out.probes[pos >= cnt ? "api.align_goto_past_end" : "api.align_goto_inside"]++;
                            if (pos >= cnt) {
                                if (gi) {
                                    bad(opi, "iterator_stays_on_entries", "goto_past_end", "alignment_iter_goto to position " + std::to_string(pos) + " of " + std::to_string(cnt) + " entries returned an iterator");
                                    LV(alignment_iter_free(gi));
                                }
                                continue;
                            }
                            if (!gi) {
                                bad(opi, "protocol_call_succeeds", "goto_inside", "alignment_iter_goto to position " + std::to_string(pos) + " of " + std::to_string(cnt) + " entries returned NULL");
                                continue;
                            }
                            int st = 0, du = 0;
                            L(alignment_iter_name(gi));
                            L(alignment_iter_seg(gi, &st, &du));
                            L(alignment_iter_get(gi));
                            if (lvl < 2) {
                                alignment_iter_t *ch = L(alignment_iter_children(gi));
                                int c2 = 0;
                                while (ch) {
                                    L(alignment_iter_name(ch));
                                    if (++c2 > 2 && (kk & 1)) {
                                        L(alignment_iter_free(ch));
                                        break;
                                    }
                                    ch = L(alignment_iter_next(ch));
                                }
                            }
                            L(alignment_iter_free(gi));
                        }
                    }
                } else if (what.compare(0, 4, "json") == 0) {
                    const char *js = L(decoder_result_json(s.d, 0.0, what[4] - '0'));
                    out.events.i64(js ? (int64_t)strlen(js) : -1);
                } else if (what == "prob") {
                    out.events.i64(L(decoder_prob(s.d)));
                } else if (what == "n_frames") {
                    out.events.i64(L(decoder_n_frames(s.d)));
                } else if (what == "times") {
                    double a, b, c;
                    LV(decoder_utt_time(s.d, &a, &b, &c));
                    LV(decoder_all_time(s.d, &a, &b, &c));
                } else if (what == "get_cmn" || what == "get_cmn_update") {
                    const char *c = L(decoder_get_cmn(s.d, what == "get_cmn_update"));
                    out.events.i64(c ? (int64_t)strlen(c) : -1);
                } else if (what == "lookup") {
                    char *p = L(decoder_lookup_word(s.d, "go"));
                    LV(ckd_free(p));
                }
            } else if (o == "add_word") {
                if (s.in_utt)
                    continue;
                out.events.i64(L(decoder_add_word(s.d, op.gets("word").c_str(), op.gets("phones").c_str(), op.getb("update"))) >= 0);
            } else if (o == "set_cmn") {
                out.events.i64(L(decoder_set_cmn(s.d, op.gets("text").c_str())));
            } else if (o == "knobs") {
                if (s.in_utt)
                    continue;
                L(config_set_float(s.d->config, "beam", 1e-40));
                L(config_set_bool(s.d->config, "fsgusefiller", 0));
            } else if (o == "reinit") {
                if (s.in_utt)
                    continue;
                int rv = L(decoder_reinit(s.d, NULL));
                out.events.i64(rv);
                s.has_grammar = false;
                if (rv < 0)
                    bad(opi, "protocol_call_succeeds", "reinit", "decoder_reinit with the same configuration failed");
            } else if (o == "misuse") {
                misuses++;
                const std::string kind = op.gets("kind");
                out.trace.str(kind);
                out.probes["misuse." + kind]++;
                auto expect_fail = [&](int rv, const char *call) {
                    out.events.i64(rv);
                    if (rv >= 0)
                        bad(opi, "misuse_reports_failure", kind, std::string(call) + " out of order / with a degenerate argument returned " + std::to_string(rv));
                };
                if (kind == "process_idle") {
                    if (!s.in_utt) {
                        int16_t buf[160] = { 0 };
                        int16_t *heap = (int16_t *)malloc(sizeof buf);
                        memcpy(heap, buf, sizeof buf);
                        int rv = L(decoder_process_int16(s.d, heap, 160, 0, 0));
                        free(heap);
                        out.events.i64(rv);
                        if (rv > 0)
                            bad(opi, "misuse_reports_failure", kind, "decoder_process outside an utterance searched " + std::to_string(rv) + " frames");
                    }
                } else if (kind == "start_twice") {
                    if (s.in_utt)
                        expect_fail(L(decoder_start_utt(s.d)), "decoder_start_utt");
                } else if (kind == "end_idle") {
                    if (!s.in_utt)
                        expect_fail(L(decoder_end_utt(s.d)), "decoder_end_utt");
                } else if (kind == "query_no_grammar" || kind == "json_no_utt" || kind == "nbest_no_utt" || kind == "lattice_no_utt" || kind == "align_no_utt") {
                    // queries before any utterance / without a grammar: must return (NULL or an empty result), never crash
                    if (kind == "query_no_grammar" || !s.ever_utt) {
                        int32 sc;
                        L(decoder_hyp(s.d, &sc));
                        seg_iter_t *it = L(decoder_seg_iter(s.d));
                        if (it)
                            LV(seg_iter_free(it));
                        if (kind == "json_no_utt" || kind == "query_no_grammar") {
                            L(decoder_result_json(s.d, 0.0, 0));
                            L(decoder_result_json(s.d, 0.0, 2));
                        }
                        if (kind == "lattice_no_utt" || kind == "query_no_grammar")
                            L(decoder_lattice(s.d));
                        if (kind == "nbest_no_utt" || kind == "query_no_grammar") {
                            hyp_iter_t *nb = L(decoder_nbest(s.d));
                            if (nb)
                                LV(hyp_iter_free(nb));
                        }
                        if (kind == "align_no_utt" || kind == "query_no_grammar")
                            L(decoder_alignment(s.d));
                        L(decoder_prob(s.d));
                        L(decoder_n_frames(s.d));
                    }
                } else if (kind == "empty_align_text") {
                    if (!s.in_utt) {
                        int rv = L(decoder_set_align_text(s.d, ""));
                        out.events.i64(rv);
                        if (rv == 0)
                            s.has_grammar = true;
                    }
                } else if (kind == "unknown_word_align_text") {
                    if (!s.in_utt)
                        expect_fail(L(decoder_set_align_text(s.d, "go qqqqunknownqqq ten")), "decoder_set_align_text");
                } else if (kind == "garbage_jsgf") {
                    if (!s.in_utt)
                        expect_fail(L(decoder_set_jsgf_string(s.d, "#JSGF V1.0; grammar x; public <a> = ( go ;")), "decoder_set_jsgf_string");
                } else if (kind == "empty_jsgf") {
                    if (!s.in_utt)
                        expect_fail(L(decoder_set_jsgf_string(s.d, "")), "decoder_set_jsgf_string");
                } else if (kind == "add_empty_word") {
                    if (!s.in_utt)
                        expect_fail(L(decoder_add_word(s.d, "", "G OW", 1)), "decoder_add_word");
                } else if (kind == "add_empty_pron") {
                    if (!s.in_utt)
                        expect_fail(L(decoder_add_word(s.d, "zzempty", "", 1)), "decoder_add_word");
                } else if (kind == "add_unknown_phone") {
                    if (!s.in_utt)
                        expect_fail(L(decoder_add_word(s.d, "zzbadphone", "G QQX", 1)), "decoder_add_word");
                } else if (kind == "lookup_empty" || kind == "lookup_unknown") {
                    char *p = L(decoder_lookup_word(s.d, kind == "lookup_empty" ? "" : "qqqnotthere"));
                    if (p)
                        bad(opi, "misuse_reports_failure", kind, "lookup of an absent word returned a pronunciation");
                    LV(ckd_free(p));
                } else if (kind == "set_cmn_empty" || kind == "set_cmn_garbage") {
                    L(decoder_set_cmn(s.d, kind == "set_cmn_empty" ? "" : ",,x,1e999,-,40"));
                    L(decoder_set_cmn(s.d, "40,3,-1,0,0,0,0,0,0,0,0,0,0"));
                } else if (kind == "free_mid_utt") {
                    if (s.in_utt) {
                        L(decoder_free(s.d));
                        s.d = nullptr;
                        s.in_utt = false;
                        s.has_grammar = false;
                        out.probes["api.freed_mid_utterance"]++;
                    }
                } else if (kind == "retain_free") {
                    L(decoder_retain(s.d));
                    int rc = L(decoder_free(s.d));
                    if (rc < 1)
                        bad(opi, "refcount", kind, "retain + free dropped the last reference");
                } else if (kind == "process_zero_samples") {
                    if (s.in_utt) {
                        int16_t *heap = (int16_t *)malloc(2);
                        int rv = L(decoder_process_int16(s.d, heap, 0, 0, 0));
                        free(heap);
                        out.events.i64(rv);
                    }
                } else if (kind == "set_logfile_null") {
                    L(decoder_set_logfile(s.d, NULL));
                } else if (kind == "grammar_mid_utt") {
                    // a grammar loaded while an utterance is in progress: either outcome is acceptable, the utterance
                    // goes on being fed and ended afterwards
                    if (s.in_utt) {
                        int rv = L(decoder_set_align_text(s.d, lang_of(s.tmpl) == "en" ? "go forward ten meters" : "avance de dix mètres"));
                        out.events.i64(rv);
                        out.probes[rv == 0 ? "api.grammar_mid_utt_accepted" : "api.grammar_mid_utt_refused"]++;
                    }
                } else if (kind == "add_word_mid_utt") {
                    if (s.in_utt) {
                        int rv = L(decoder_add_word(s.d, "zzmidutt", lang_of(s.tmpl) == "en" ? "G OW" : "a v", 1));
                        out.events.i64(rv);
                    }
                } else if (kind.compare(0, 11, "reinit_bad_") == 0) {
                    // a reinitialisation refused at one of its stages, then a good one: the decoder must come back
                    if (!s.in_utt) {
                        config_t *c = make_config(s.tmpl);
                        if (kind == "reinit_bad_dict")
                            L(config_set_str(c, "dict", "/vfs/no-such-dictionary.dic"));
                        else if (kind == "reinit_bad_fe")
                            L(config_set_int(c, "nfft", 3)); // (a key the model's own feature parameters do not override)
                        else
                            L(config_set_str(c, "hmm", "/vfs/no-such-model"));
                        expect_fail(L(decoder_reinit(s.d, c)), "decoder_reinit"); // consumes c
                        int rv = L(decoder_reinit(s.d, make_config(s.tmpl)));
                        out.events.i64(rv);
                        s.has_grammar = false;
                        if (rv < 0)
                            bad(opi, "decoder_usable_afterwards", kind, "decoder_reinit with a good configuration failed after a refused one");
                    }
                }
            }
            if (!out.violations.empty())
                break;
        }
        ctx.at((int)ops.size());
        g_cur_op = (int32_t)ops.size();
        // ---- bounded liveness: once the misuse stops, every surviving decoder decodes the canary utterance
        if (out.violations.empty()) {
            close_iters();
            for (auto &s : ds) {
                if (!s.d)
                    continue;
                if (s.in_utt) {
                    L(decoder_end_utt(s.d));
                    s.in_utt = false;
                }
                // (a decoder whose beams were narrowed by a knobs op decodes differently by design: restore them)
                L(config_set_float(s.d->config, "beam", 1e-48));
                L(config_set_bool(s.d->config, "fsgusefiller", 1));
                bool ok = false;
                std::string rec = canary(s.d, s.tmpl, &ok);
                out.checks++;
                out.events.str(rec);
                if (!ok)
                    bad((int)ops.size(), "decoder_usable_afterwards", "canary_failed", "after the history the canary utterance cannot be decoded: " + rec);
                else if (rec != canary_ref[s.tmpl])
                    bad((int)ops.size(), "decoder_usable_afterwards", "canary_differs", "after the history the canary utterance decodes to " + rec.substr(0, 150) + " instead of " + canary_ref[s.tmpl].substr(0, 150));
            }
        }
        // ---- crash point: release every reference, then the ledger must be empty
        close_iters();
        for (auto &s : ds)
            if (s.d) {
                L(decoder_free(s.d));
                s.d = nullptr;
            }
        g_track = 0;
        out.checks++;
        if (g_overflow)
            out.other["api.ledger_overflow"]++;
        if (g_live != 0 && out.violations.empty()) {
            // attribute to the op that allocated most of the leaked bytes
            std::map<int, int64_t> by_op;
            int64_t total = 0, blocks = 0;
            for (size_t i = 0; i < LEDGER_N; ++i)
                if (g_ledger[i].p && g_ledger[i].p != TOMB) {
                    by_op[g_ledger[i].op] += g_ledger[i].size;
                    total += g_ledger[i].size;
                    blocks++;
                }
            int worst = -1;
            int64_t wb = -1;
            for (auto &kv : by_op)
                if (kv.second > wb) {
                    wb = kv.second;
                    worst = kv.first;
                }
            std::string trig = "canary";
            if (worst >= 0 && worst < (int)ops.size()) {
                trig = ops[(size_t)worst].gets("op");
                if (trig == "query")
                    trig += ":" + ops[(size_t)worst].gets("what");
                if (trig == "misuse")
                    trig += ":" + ops[(size_t)worst].gets("kind");
                if (trig == "grammar")
                    trig += ":" + ops[(size_t)worst]["g"].gets("kind");
            }
            // where was the largest leaked block allocated?  ASan knows: let it describe the address into our stderr
            // capture and take the first library frame that is not the allocation wrapper itself
            std::string site = "-";
#ifdef HAVE_ASAN_HOOKS
            {
                const volatile void *big = nullptr;
                uint32_t bs = 0;
                for (size_t i = 0; i < LEDGER_N; ++i)
                    if (g_ledger[i].p && g_ledger[i].p != TOMB && g_ledger[i].op == worst && g_ledger[i].size >= bs) {
                        bs = g_ledger[i].size;
                        big = g_ledger[i].p;
                    }
                if (big) {
                    if (ftruncate(2, 0) != 0) {}
                    lseek(2, 0, SEEK_SET);
                    __asan_describe_address((void *)big);
                    char buf[16384];
                    ssize_t n = pread(2, buf, sizeof buf - 1, 0);
                    if (n > 0) {
                        buf[n] = 0;
                        std::string t = buf;
                        if (getenv("VERIF_LEAK_TRACE"))
                            out.other["TRACE " + t.substr(0, 1500)]++;
                        size_t p0 = t.find("allocated by");
                        size_t pos = p0 == std::string::npos ? 0 : p0;
                        while ((pos = t.find("\n    #", pos)) != std::string::npos) {
                            size_t eol = t.find('\n', pos + 1);
                            std::string ln = t.substr(pos + 1, eol == std::string::npos ? std::string::npos : eol - pos - 1);
                            pos = eol == std::string::npos ? t.size() : eol;
                            size_t in = ln.find(" in ");
                            if (in == std::string::npos)
                                continue;
                            size_t sp = ln.find(' ', in + 4);
                            if (sp == std::string::npos)
                                continue;
                            std::string fn = ln.substr(in + 4, sp - in - 4), path = ln.substr(sp + 1);
                            if (path.find("/src/") == std::string::npos || path.find("/verif/sim/") != std::string::npos)
                                continue;
                            if (path.find("ckd_alloc.c") != std::string::npos || path.find("listelem_alloc.c") != std::string::npos || path.find("glist.c") != std::string::npos)
                                continue;
                            site = fn;
                            break;
                        }
                    }
                    if (ftruncate(2, 0) != 0) {}
                    lseek(2, 0, SEEK_SET);
                }
            }
#endif
            Violation v;
            v.invariant = "C09.no_leak";
            v.kind = "leak";
            v.site = site;
            v.trigger = trig;
            v.detail = std::to_string(blocks) + " blocks / " + std::to_string(total) + " bytes allocated inside library calls are still allocated after the last release; most of them (" +
                std::to_string(wb) + " bytes) were allocated during op " + std::to_string(worst) + " (" + trig + ")";
            v.op = worst;
            out.violations.push_back(v);
        }
        out.probes["api.abandoned_iterators"] += abandoned;
        out.probes["api.misuses"] += misuses;
        out.nontrivial = fed_utts > 0 && (misuses > 0 || abandoned > 0);
    }

    std::string crash_trigger(const Json &plan, int op, const std::string &) const override
    {
        const auto &ops = plan["ops"].a;
        if (op >= 0 && op < (int)ops.size()) {
            std::string t = ops[(size_t)op].gets("op");
            if (t == "query")
                t += ":" + ops[(size_t)op].gets("what");
            if (t == "misuse")
                t += ":" + ops[(size_t)op].gets("kind");
            if (t == "grammar")
                t += ":" + ops[(size_t)op]["g"].gets("kind");
            return t;
        }
        return op >= (int)ops.size() ? "release" : "-";
    }
};

static ApiWorld g_api;
struct Reg {
    Reg() { register_world(&g_api); }
} g_reg;

} // namespace
} // namespace sim
