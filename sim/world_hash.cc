// HASH world (C20): operation histories over adversarial key pools against a reference map.
#include "kernel.h"
#include <algorithm>

extern "C" {
#include <soundswallower/glist.h>
#include <soundswallower/hash_table.h>
}

namespace sim {
namespace {

static std::string fold(const std::string &k, bool nocase)
{
    if (!nocase)
        return k;
    std::string r = k;
    for (auto &c : r)
        if (c >= 'a' && c <= 'z')
            c = (char)(c - 32);
    return r;
}

// bucket of a key, discovered by entering it alone into a scratch table and scanning the public array
static int bucket_of(const std::string &key, int size, bool nocase, bool bin)
{
    hash_table_t *h = hash_table_new(size, nocase ? HASH_CASE_NO : HASH_CASE_YES);
    if (bin)
        hash_table_enter_bkey(h, key.data(), key.size(), (void *)1);
    else
        hash_table_enter(h, key.c_str(), (void *)1);
    int b = -1;
    for (int i = 0; i < h->size; ++i)
        if (h->table[i].key) {
            b = i;
            break;
        }
    hash_table_free(h);
    return b;
}

struct HashWorld : World {
    const char *name() const override { return "hash"; }
    std::vector<std::string> properties() const override { return { "C20" }; }
    bool cheap(const std::string &) const override { return true; }
    int64_t default_runs(const std::string &, int tier) const override { return tier ? 3000000 : 50000; }
    int watchdog_s(const std::string &) const override { return 20; }
    std::string rule(const std::string &) const override
    {
        return "one run = one seeded history of <=400 hash-table operations (enter/replace/delete/lookup/empty/iterate/abandoned iterate/tolist/renew) "
               "over a key pool built to collide (buckets discovered through the public table array), with prefixes, case variants, the empty key, "
               "binary keys with zeros and high bytes, 1000-byte keys; a std::map reference is stepped in lock-step. Non-trivial: the history deleted at least "
               "one live key from a collision chain of length >= 2 and performed at least one lookup afterwards; distinct = distinct plan digest";
    }
    Json components(const std::string &) const override
    {
        Json j = Json::object();
        Json real = Json::array();
        real.push("src/hash_table.c");
        real.push("src/glist.c");
        real.push("src/ckd_alloc.c");
        j.set("real", real);
        j.set("stub", Json::array());
        j.set("model", "std::map keyed by (case-folded) key bytes");
        return j;
    }
    std::vector<std::string> assumptions(const std::string &) const override
    {
        return { "equality of keys in a case-insensitive table is equality after folding ASCII case, for binary keys as for strings (what the table's comparison function does)",
                 "string and binary entry points are not mixed on one table (they hash the same bytes differently by design)" };
    }

    Json generate(const std::string &, uint64_t seed, int tier) override
    {
        (void)tier;
        Rng r(seed);
        Json plan = Json::object();
        plan.set("world", "hash");
        bool nocase = r.chance(0.5), bin = r.chance(0.4), i32 = r.chance(0.3);
        static const std::vector<int> sizes = { 1, 2, 5, 10, 30, 60, 67, 68, 100, 140, 141, 200, 300 };
        int size = r.pick(sizes);
        Json cfg = Json::object();
        cfg.set("size", size);
        cfg.set("nocase", nocase);
        cfg.set("bin", bin);
        cfg.set("int32", i32);
        // binary keys that differ only in ASCII case, in a case-insensitive table: equal keys (the comparison folds case),
        // so they must also hash alike (they did not: repaired, see known_findings.json)
        bool case_pairs = bin && nocase && r.chance(0.25);
        cfg.set("case_pairs", case_pairs);
        cfg.set("alias", bin && r.chance(0.2));
        // ---- key pool
        std::vector<std::string> pool;
        auto add = [&](const std::string &k) {
            if (!bin && k.find('\0') != std::string::npos)
                return;
            std::string f = fold(k, nocase);
            if (bin && nocase && !case_pairs) // see assumptions: no lowercase ASCII in folded binary tables
                for (char c : k)
                    if (c >= 'a' && c <= 'z')
                        return;
            (void)f;
            if (std::find(pool.begin(), pool.end(), k) == pool.end())
                pool.push_back(k);
        };
        auto rnd_key = [&](int minlen, int maxlen) {
            int n = (int)r.range(minlen, maxlen);
            std::string k;
            for (int i = 0; i < n; ++i) {
                if (bin) {
                    int c = (int)r.below(256);
                    if (r.chance(0.2))
                        c = 0;
                    k += (char)c;
                } else {
                    static const char al[] = "abcdefghijklmnopqrstuvwxyzABCDEFGHIJKLMNOPQRSTUVWXYZ0123456789_()'- ";
                    int c = r.chance(0.08) ? (int)r.range(0x80, 0xff) : al[r.below(sizeof al - 1)];
                    k += (char)c;
                }
            }
            return k;
        };
        int want = (int)r.range(3, 24);
        if (r.chance(0.7))
            add("");
        if (r.chance(0.6)) { // prefixes of each other
            std::string base = rnd_key(4, 9);
            for (size_t n = 1; n <= base.size(); ++n)
                if (r.chance(0.6))
                    add(base.substr(0, n));
            if (bin) {
                add(base + std::string(1, '\0'));
                add(base + std::string(2, '\0'));
            }
        }
        if ((r.chance(0.6) && !bin) || case_pairs) { // case variants
            std::string base = rnd_key(2, 6);
            if (case_pairs) { // (random bytes are rarely letters)
                base.clear();
                for (int i = (int)r.range(1, 4); i > 0; --i)
                    base += (char)((r.chance(0.5) ? 'a' : 'A') + (int)r.below(26));
                if (r.chance(0.3))
                    base += '\0';
            }
            std::string up = base, lo = base;
            for (auto &c : up)
                if (c >= 'a' && c <= 'z')
                    c = (char)(c - 32);
            for (auto &c : lo)
                if (c >= 'A' && c <= 'Z')
                    c = (char)(c + 32);
            add(base);
            add(up);
            add(lo);
        }
        if (case_pairs) {
            // a pair differing only in case that lands in ONE bucket (the table hashes the raw bytes, so this takes a
            // search): candidates in one scratch table, their twins (some letters in the other case) in another of the
            // same geometry, buckets read off the public arrays
            std::vector<std::string> orig, twin;
            for (int i = 0; i < 900; ++i) {
                std::string k;
                for (int q = (int)r.range(3, 8); q > 0; --q)
                    k += (char)((r.chance(0.5) ? 'a' : 'A') + (int)r.below(26));
                std::string t = k;
                bool changed = false;
                for (auto &c : t)
                    if (r.chance(0.5)) {
                        c = (char)(c ^ 0x20);
                        changed = true;
                    }
                if (!changed)
                    t[0] = (char)(t[0] ^ 0x20);
                orig.push_back(k);
                twin.push_back(t);
            }
            auto buckets = [&](const std::vector<std::string> &keys) {
                std::map<std::string, int> m;
                hash_table_t *sh = hash_table_new(size, HASH_CASE_YES);
                for (auto &x : keys) // (the table keeps the caller's key pointers: `keys` outlives it)
                    hash_table_enter_bkey(sh, x.data(), x.size(), (void *)1);
                for (int bq = 0; bq < sh->size; ++bq)
                    for (hash_entry_t *e = &sh->table[bq]; e && e->key; e = e->next)
                        m[std::string(e->key, e->len)] = bq;
                hash_table_free(sh);
                return m;
            };
            std::map<std::string, int> bo = buckets(orig), bt = buckets(twin);
            int added = 0;
            for (size_t i = 0; i < orig.size() && added < 2; ++i)
                if (bo.count(orig[i]) && bt.count(twin[i]) && bo[orig[i]] == bt[twin[i]]) {
                    add(orig[i]);
                    add(twin[i]);
                    ++added;
                }
        }
        if (r.chance(0.15))
            add(rnd_key(1000, 1000));
        if (r.chance(0.8)) { // colliding keys: the fullest bucket among candidates
            std::map<int, std::vector<std::string>> byb;
            int ncand = size <= 68 ? 600 : 1500;
            {
                // enter all candidates into ONE scratch table of the same geometry and read the chains
                // off the public array: keys sharing a chain collide by definition
                std::vector<std::string> cands;
                cands.reserve(ncand);
                for (int i = 0; i < ncand; ++i) {
                    std::string k = rnd_key(1, 5);
                    if (!bin && k.find('\0') != std::string::npos)
                        continue;
                    if (bin && nocase && !case_pairs) {
                        bool lower = false;
                        for (char c : k)
                            if (c >= 'a' && c <= 'z')
                                lower = true;
                        if (lower)
                            continue;
                    }
                    cands.push_back(k);
                }
                hash_table_t *sh = hash_table_new(size, nocase ? HASH_CASE_NO : HASH_CASE_YES);
                for (auto &k : cands) {
                    if (bin)
                        hash_table_enter_bkey(sh, k.data(), k.size(), (void *)1);
                    else
                        hash_table_enter(sh, k.c_str(), (void *)1);
                }
                for (int b = 0; b < sh->size; ++b) {
                    if (!sh->table[b].key)
                        continue;
                    for (hash_entry_t *e = &sh->table[b]; e; e = e->next)
                        byb[b].push_back(std::string(e->key, e->len));
                }
                hash_table_free(sh);
                for (auto &kv : byb)
                    std::sort(kv.second.begin(), kv.second.end());
            }
            // two fullest buckets
            std::vector<std::pair<size_t, int>> order;
            for (auto &kv : byb)
                order.emplace_back(kv.second.size(), kv.first);
            std::sort(order.begin(), order.end(), [](const std::pair<size_t, int> &a, const std::pair<size_t, int> &b) {
                return a.first != b.first ? a.first > b.first : a.second < b.second;
            });
            for (size_t q = 0; q < order.size() && q < 2; ++q) {
                auto &v = byb[order[q].second];
                int take = (int)r.range(2, 7);
                for (int i = 0; i < take && i < (int)v.size(); ++i)
                    add(v[i]);
            }
        }
        while ((int)pool.size() < want)
            add(rnd_key(0, 12));
        Json jp = Json::array();
        for (auto &k : pool)
            jp.push(k);
        cfg.set("pool", jp);
        plan.set("cfg", cfg);
        // ---- operations
        int nops = (int)r.range(5, r.chance(0.2) ? 400 : 120);
        std::vector<int> w = { 30, 12, 22, 25, 1, 3, 3, 3, 1 }; // enter replace delete lookup empty iter iter_abandon tolist renew
        if (r.chance(0.3))
            w[0] = 60; // fill-heavy
        if (r.chance(0.3))
            w[2] = 50; // delete-heavy
        static const char *names[] = { "enter", "replace", "delete", "lookup", "empty", "iter", "iter_abandon", "tolist", "renew" };
        Json ops = Json::array();
        int nextval = 1;
        for (int i = 0; i < nops; ++i) {
            size_t k = r.weighted(w);
            Json op = Json::object();
            op.set("op", names[k]);
            if (k <= 3)
                op.set("k", (long long)r.below(pool.size()));
            if (k == 1 && r.chance(0.25))
                op.set("same_value", true);
            if (k <= 1)
                op.set("v", nextval++);
            if (k == 6)
                op.set("stop", (long long)r.below(6));
            ops.push(op);
        }
        plan.set("ops", ops);
        return plan;
    }

    struct Live {
        char *copy;  // key copy the table is holding
        int64_t val;
        std::string raw;
    };

    void execute(const Json &plan, const Ctx &ctx) override
    {
        Outcome &out = *ctx.out;
        const Json &cfg = plan["cfg"];
        int size = (int)cfg.geti("size", 10);
        bool nocase = cfg.getb("nocase"), bin = cfg.getb("bin"), i32 = cfg.getb("int32");
        const bool case_pairs = cfg.getb("case_pairs") && bin && nocase;
        std::vector<std::string> pool;
        for (auto &k : cfg["pool"].a)
            pool.push_back(k.s);
        if (pool.empty())
            pool.push_back("k");
        hash_table_t *h = hash_table_new(size, nocase ? HASH_CASE_NO : HASH_CASE_YES);
        std::map<std::string, Live> model;
        bool chain_delete = false, lookup_after = false;
        // alias mode (binary tables): keys that are prefixes of one another are handed over as one buffer with different
        // lengths (n-gram histories over one array), so that distinct keys start at the same address
        const bool alias = bin && cfg.getb("alias");
        std::map<std::string, char *> arena;
        auto mk = [&](const std::string &k) { // exact-size copy
            char *c;
            if (alias) {
                std::string fam = k;
                for (auto &q : pool)
                    if (q.size() > fam.size() && q.compare(0, k.size(), k) == 0 && (q.size() > fam.size() || q < fam))
                        fam = q;
                auto f = arena.find(fam);
                if (f == arena.end()) {
                    char *buf = (char *)malloc(fam.size() ? fam.size() : 1);
                    memcpy(buf, fam.data(), fam.size());
                    f = arena.emplace(fam, buf).first;
                }
                return f->second;
            }
            if (bin) {
                c = (char *)malloc(k.size() ? k.size() : 1);
                memcpy(c, k.data(), k.size());
            } else {
                c = (char *)malloc(k.size() + 1);
                memcpy(c, k.data(), k.size());
                c[k.size()] = 0;
            }
            return c;
        };
        auto release = [&](void *p) {
            if (!alias) // (arena buffers live as long as the run)
                free(p);
        };
        auto bad = [&](int opi, const char *inv, const std::string &msg) {
            out.violate(std::string("C20.") + inv, "mismatch", case_pairs ? std::string(inv) + ":binary_case_pair" : std::string(inv), msg, opi);
        };
        // locate the live entry of a model key in the public table: (bucket, position in chain, chain length)
        const bool alias_mode = bin && cfg.getb("alias");
        size_t copy_len = 0; // (alias mode: the length that goes with the buffer handed to locate)
        auto locate = [&](const char *copy, int &pos, int &len) {
            for (int b = 0; b < h->size; ++b) {
                if (!h->table[b].key)
                    continue;
                int n = 0, at = -1;
                for (hash_entry_t *e = &h->table[b]; e; e = e->next, ++n)
                    if (e->key == copy && (!alias_mode || e->len == copy_len))
                        at = n;
                if (at >= 0) {
                    pos = at;
                    len = n;
                    return true;
                }
            }
            return false;
        };
        auto check_entries = [&](int opi, std::vector<hash_entry_t *> &ents, const char *what) {
            std::set<std::pair<const char *, size_t>> seen; // (an entry is its key buffer AND length: aliased keys share buffers)
            for (hash_entry_t *e : ents) {
                bool found = false;
                for (auto &kv : model)
                    if (kv.second.copy == e->key && kv.second.raw.size() == e->len) {
                        found = true;
                        if (!seen.insert(std::make_pair((const char *)e->key, (size_t)e->len)).second)
                            bad(opi, what, "entry visited twice");
                        if ((int64_t)(size_t)e->val != kv.second.val)
                            bad(opi, what, "entry value differs from the model");
                        if (e->len != kv.second.raw.size())
                            bad(opi, what, "entry length differs from the model");
                    }
                if (!found)
                    bad(opi, what, "visited an entry that is not live in the model");
            }
            if (seen.size() != model.size())
                bad(opi, what, "visited " + std::to_string(seen.size()) + " live entries, model has " + std::to_string(model.size()));
        };
        const auto &ops = plan["ops"].a;
        for (size_t n = 0; n < ops.size(); ++n) {
            const Json &op = ops[n];
            int opi = (int)n;
            ctx.at(opi);
            const std::string &o = op.gets("op");
            out.events.str(o);
            out.trace.str(o);
            std::string raw = pool[(size_t)op.geti("k") % pool.size()];
            std::string fk = fold(raw, nocase);
            auto it = model.find(fk);
            if (o == "enter" || o == "replace") {
                int64_t v = op.geti("v", 1);
                if (v <= 0)
                    v = 1;
                bool rep = o == "replace";
                // a replace that stores the value already held still swaps in the caller's key buffer (the documented use:
                // enter with a short-lived key, replace with a long-lived one); the old buffer is released below
                if (rep && op.getb("same_value") && it != model.end()) {
                    v = it->second.val;
                    out.probes["hash.replace_same_value"]++;
                }
                char *c = mk(raw);
                int64_t ret;
                if (bin) {
                    if (i32)
                        ret = rep ? hash_table_replace_bkey_int32(h, c, raw.size(), (int32)v) : hash_table_enter_bkey_int32(h, c, raw.size(), (int32)v);
                    else
                        ret = (int64_t)(size_t)(rep ? hash_table_replace_bkey(h, c, raw.size(), (void *)(size_t)v) : hash_table_enter_bkey(h, c, raw.size(), (void *)(size_t)v));
                } else {
                    if (i32)
                        ret = rep ? hash_table_replace_int32(h, c, (size_t)v) : hash_table_enter_int32(h, c, (int32)v);
                    else
                        ret = (int64_t)(size_t)(rep ? hash_table_replace(h, c, (void *)(size_t)v) : hash_table_enter(h, c, (void *)(size_t)v));
                }
                out.events.i64(ret);
                out.checks++;
                if (it == model.end()) {
                    if (ret != v)
                        bad(opi, "enter_new", "enter/replace of an absent key returned " + std::to_string(ret) + ", expected the new value " + std::to_string(v));
                    model[fk] = Live { c, v, raw };
                } else {
                    if (ret != it->second.val)
                        bad(opi, rep ? "replace_existing" : "enter_existing",
                            "returned " + std::to_string(ret) + ", expected the stored value " + std::to_string(it->second.val));
                    if (rep) {
                        release(it->second.copy); // the table now holds c; a stale pointer would be an ASan error
                        it->second = Live { c, v, raw };
                    } else
                        release(c);
                }
                out.trace.i64(it == model.end() ? 0 : 1);
            } else if (o == "delete") {
                int pos = 0, len = 0;
                copy_len = it != model.end() ? it->second.raw.size() : 0;
                if (it != model.end() && locate(it->second.copy, pos, len)) {
                    if (len >= 2)
                        chain_delete = true;
                    out.probes[len == 1 ? "hash.delete_head_alone" : pos == 0 ? "hash.delete_head_with_next" : pos == len - 1 ? "hash.delete_tail" : "hash.delete_middle"]++;
                    if (len >= 3)
                        out.probes["hash.chain_len>=3"]++;
                }
                char *c = mk(raw);
                int64_t ret = (int64_t)(size_t)(bin ? hash_table_delete_bkey(h, c, raw.size()) : hash_table_delete(h, c));
                release(c);
                out.events.i64(ret);
                out.checks++;
                if (it == model.end()) {
                    if (ret != 0)
                        bad(opi, "delete_absent", "delete of an absent key returned " + std::to_string(ret));
                } else {
                    if (ret != it->second.val)
                        bad(opi, "delete_existing", "delete returned " + std::to_string(ret) + ", expected " + std::to_string(it->second.val));
                    release(it->second.copy);
                    model.erase(it);
                }
                out.trace.i64(it == model.end() ? 0 : 1);
            } else if (o == "lookup") {
                char *c = mk(raw);
                int rv;
                int64_t got = -1;
                if (i32) {
                    int32 v32 = -1;
                    rv = bin ? hash_table_lookup_bkey_int32(h, c, raw.size(), &v32) : hash_table_lookup_int32(h, c, &v32);
                    got = v32;
                } else {
                    void *vp = (void *)(size_t)-1;
                    rv = bin ? hash_table_lookup_bkey(h, c, raw.size(), &vp) : hash_table_lookup(h, c, &vp);
                    got = (int64_t)(size_t)vp;
                }
                release(c);
                out.events.i64(rv);
                out.checks++;
                if (chain_delete)
                    lookup_after = true;
                if (it == model.end()) {
                    if (rv == 0)
                        bad(opi, "lookup_absent", "lookup of an absent key succeeded");
                } else {
                    out.events.i64(got);
                    if (rv != 0)
                        bad(opi, "lookup_present", "lookup of a live key failed");
                    else if (got != it->second.val)
                        bad(opi, "lookup_value", "lookup returned " + std::to_string(got) + ", model holds " + std::to_string(it->second.val));
                }
            } else if (o == "empty") {
                hash_table_empty(h);
                for (auto &kv : model)
                    release(kv.second.copy);
                model.clear();
            } else if (o == "iter") {
                std::vector<hash_entry_t *> ents;
                for (hash_iter_t *itor = hash_table_iter(h); itor; itor = hash_table_iter_next(itor)) {
                    ents.push_back(itor->ent);
                    if (ents.size() > model.size() + 1000)
                        break;
                }
                out.checks++;
                check_entries(opi, ents, "iteration");
            } else if (o == "iter_abandon") {
                int stop = (int)op.geti("stop");
                hash_iter_t *itor = hash_table_iter(h);
                for (int k = 0; itor && k < stop; ++k)
                    itor = hash_table_iter_next(itor);
                if (itor)
                    hash_table_iter_free(itor);
            } else if (o == "tolist") {
                int32 count = -1;
                glist_t g = hash_table_tolist(h, &count);
                std::vector<hash_entry_t *> ents;
                for (gnode_t *gn = g; gn; gn = gnode_next(gn))
                    ents.push_back((hash_entry_t *)gnode_ptr(gn));
                glist_free(g);
                out.checks++;
                if (count != (int32)model.size())
                    bad(opi, "tolist_count", "tolist count " + std::to_string(count) + " != live keys " + std::to_string(model.size()));
                check_entries(opi, ents, "tolist");
            } else if (o == "renew") {
                hash_table_free(h);
                for (auto &kv : model)
                    release(kv.second.copy);
                model.clear();
                h = hash_table_new(size, nocase ? HASH_CASE_NO : HASH_CASE_YES);
            }
            out.checks++;
            if (hash_table_inuse(h) != (int32)model.size())
                bad(opi, "inuse", "inuse " + std::to_string(hash_table_inuse(h)) + " != live keys " + std::to_string(model.size()));
            out.events.i64(hash_table_inuse(h));
        }
        ctx.at((int)ops.size());
        hash_table_free(h);
        for (auto &kv : model)
            release(kv.second.copy);
        out.nontrivial = chain_delete && lookup_after;
    }

    std::vector<Json> simplify(const Json &plan) const override
    {
        std::vector<Json> c;
        // drop unused pool keys is not possible without renumbering; instead try smaller table knobs
        if (plan["cfg"].getb("int32")) {
            Json p = plan;
            Json cfg = p["cfg"];
            cfg.set("int32", false);
            p.set("cfg", cfg);
            c.push_back(p);
        }
        return c;
    }
};

static HashWorld g_hash;
struct Reg {
    Reg() { register_world(&g_hash); }
} g_reg;

} // namespace
} // namespace sim
