#include "dec.h"
#include <unistd.h>
#include <algorithm>
#include <sstream>

namespace sim {
namespace dec {

namespace {
std::map<std::string, Lang> g_lang;

bool plain_word(const std::string &w)
{
    if (w.empty() || w.size() > 24)
        return false;
    for (unsigned char c : w)
        if (!((c >= 'a' && c <= 'z') || c == '\'' || c >= 0x80))
            return false;
    return true;
}

void add_entry(Lang &L, const std::string &spelling, const std::vector<std::string> &ph)
{
    if (L.prons.count(spelling))
        return;
    L.prons[spelling] = ph;
    L.dict_text += spelling;
    for (auto &p : ph)
        L.dict_text += " " + p;
    L.dict_text += "\n";
    std::string b = base_of(spelling);
    if (b == spelling) {
        L.vocab.push_back(b);
        if (ph.size() == 1)
            L.one_phone.push_back(b);
    }
}

void parse_dict_lines(const std::string &text, std::vector<std::pair<std::string, std::vector<std::string>>> &out)
{
    std::istringstream in(text);
    std::string line;
    while (std::getline(in, line)) {
        std::istringstream ls(line);
        std::string w, p;
        if (!(ls >> w))
            continue;
        if (w.compare(0, 2, "##") == 0 || w.compare(0, 2, ";;") == 0)
            continue;
        std::vector<std::string> ph;
        while (ls >> p)
            ph.push_back(p);
        if (!ph.empty())
            out.emplace_back(w, ph);
    }
}

void build_lang(const std::string &name, const std::string &hmm, const std::vector<std::string> &must, const std::string &extra_dict, unsigned modulo)
{
    Lang L;
    L.name = name;
    L.hmm = hmm;
    L.dict_path = "/vfs/" + name + "-small.dic";
    std::string full;
    if (!vfs::pristine(hmm + "/dict.txt", full)) {
        fprintf(stderr, "HARNESS-FAULT: cannot read %s/dict.txt\n", hmm.c_str());
        exit(2);
    }
    std::vector<std::pair<std::string, std::vector<std::string>>> ents;
    if (!extra_dict.empty()) {
        std::string t;
        if (vfs::pristine(extra_dict, t)) {
            std::vector<std::pair<std::string, std::vector<std::string>>> e2;
            parse_dict_lines(t, e2);
            for (auto &e : e2)
                add_entry(L, e.first, e.second);
        }
    }
    parse_dict_lines(full, ents);
    std::set<std::string> want(must.begin(), must.end());
    std::string curbase;
    bool take = false;
    for (auto &e : ents) {
        std::string b = base_of(e.first);
        if (b != curbase) {
            curbase = b;
            take = false;
            if (plain_word(b) && e.second.size() <= 8) {
                if (want.count(b))
                    take = true;
                else if (fnv1a(b) % modulo == 0)
                    take = true;
            }
        }
        if (take)
            add_entry(L, e.first, e.second);
    }
    // CI phones: from the pronunciations seen in the full dictionary (all of them are model phones)
    std::set<std::string> ph;
    for (auto &e : ents)
        for (auto &p : e.second)
            ph.insert(p);
    L.phones.assign(ph.begin(), ph.end());
    vfs::set_image(L.dict_path, L.dict_text);
    g_lang[name] = L;
}
} // namespace

std::string base_of(const std::string &w)
{
    size_t n = w.size();
    if (n >= 3 && w[n - 1] == ')') {
        size_t p = w.rfind('(');
        if (p != std::string::npos && p > 0 && p + 1 < n - 1) {
            bool digits = true;
            for (size_t i = p + 1; i < n - 1; ++i)
                if (w[i] < '0' || w[i] > '9')
                    digits = false;
            if (digits)
                return w.substr(0, p);
        }
    }
    return w;
}

void build_languages()
{
    if (!g_lang.empty())
        return;
    std::string R = repo_root();
    build_lang("en", R + "/model/en-us",
               { "go", "forward", "ten", "meters", "i", "want", "a", "small", "pizza", "with", "and", "the", "hello", "yes", "no", "uh", "oh", "eye", "owe", "hi", "medium", "large",
                 "pepperoni", "ham", "olives", "mushrooms", "one", "two", "three",
                 // homophones of words in the recordings (equal scores by construction: ties)
                 "metres", "to", "too", "for", "fore", "four", "won", "eye", "aye", "tenn", "goe" },
               R + "/tests/data/turtle.dic", 1100);
    build_lang("fr", R + "/model/fr-fr", { "avance", "de", "dix", "mètres", "recule", "d'", "un", "mètre", "deux", "trois", "quatre", "cinq", "six", "sept", "huit", "neuf", "à", "et", "a", "ou" }, "",
               1300);
}

const Lang &lang(const std::string &name)
{
    auto it = g_lang.find(name);
    if (it == g_lang.end()) {
        fprintf(stderr, "HARNESS-FAULT: unknown language %s\n", name.c_str());
        exit(2);
    }
    return it->second;
}

std::string lang_of(const std::string &tmpl) { return tmpl.compare(0, 2, "fr") == 0 ? "fr" : "en"; }

config_t *make_config(const std::string &tmpl)
{
    const Lang &L = lang(lang_of(tmpl));
    config_t *c = config_init(NULL);
    config_set_str(c, "hmm", L.hmm.c_str());
    if (tmpl == "enfull" || tmpl == "frfull")
        ; // the model's own full dictionary
    else
        config_set_str(c, "dict", L.dict_path.c_str());
    if (tmpl == "enc" || tmpl == "frc")
        config_set_bool(c, "compallsen", 1);
    if (tmpl == "env") {
        // variance normalisation: the model's feat_params.json would switch it off again (it overrides the user's
        // values), so the decoder gets a parameter file of its own, equal to the model's except for varnorm
        std::string fp = verif_root() + "/build/feat_params_varnorm.json";
        std::string tmp = fp + "." + std::to_string((long)getpid());
        FILE *f = fopen(tmp.c_str(), "w");
        if (f) {
            fputs("{\n\"lowerf\": 130,\n\"upperf\": 3700,\n\"nfilt\": 20,\n\"transform\": \"dct\",\n\"lifter\": 22,\n\"feat\": \"1s_c_d_dd\",\n"
                  "\"svspec\": \"0-12/13-25/26-38\",\n\"cmn\": \"current\",\n\"varnorm\": true,\n\"remove_noise\": true\n}\n", f);
            fclose(f);
            rename(tmp.c_str(), fp.c_str()); // atomic: sixteen workers build their templates at the same time
        }
        config_set_str(c, "featparams", fp.c_str());
        config_set_bool(c, "varnorm", 1);
    }
    if (tmpl == "enx") { // rarely used scoring options: Gaussian selection every second frame, two codewords per feature
        config_set_int(c, "ds", 2);
        config_set_int(c, "topn", 2);
    }
    return c;
}

decoder_t *make_decoder(const std::string &tmpl)
{
    config_t *c = make_config(tmpl);
    return decoder_init(c); // consumes c
}

std::vector<std::string> prefer_words(const std::string &recording)
{
    if (recording == "goforward")
        return { "go", "forward", "ten", "meters" };
    if (recording == "goforward_fr")
        return { "avance", "de", "dix", "mètres" };
    if (recording == "pizza")
        return { "i", "want", "a", "small", "pizza", "with", "pepperoni" };
    return {};
}

// ---------------------------------------------------------------- records
Json Rec::to_json(bool with_align) const
{
    Json j = Json::object();
    j.set("hyp", hyp_null ? Json() : Json(hyp));
    j.set("score", score_set ? Json((long long)score) : Json());
    j.set("n_frames", n_frames);
    if (seg_null)
        j.set("segs", Json());
    else {
        Json a = Json::array();
        for (auto &s : segs) {
            Json t = Json::array();
            t.push(s.word);
            t.push(s.sf);
            t.push(s.ef);
            t.push((long long)s.ascr);
            t.push((long long)s.lscr);
            t.push((long long)s.prob);
            a.push(t);
        }
        j.set("segs", a);
    }
    if (with_align && align_asked) {
        if (align_null)
            j.set("align", Json());
        else {
            Json al = Json::object();
            auto lvl = [](const std::vector<AlEnt> &v) {
                Json a = Json::array();
                for (auto &e : v) {
                    Json t = Json::array();
                    t.push(e.name);
                    t.push(e.start);
                    t.push(e.dur);
                    t.push(e.score);
                    a.push(t);
                }
                return a;
            };
            al.set("w", lvl(words));
            al.set("p", lvl(phones));
            al.set("s", lvl(states));
            j.set("align", al);
        }
    }
    return j;
}

Rec capture(decoder_t *d)
{
    Rec r;
    int32 score = SCORE_SENTINEL;
    const char *h = decoder_hyp(d, &score);
    r.hyp_null = h == nullptr;
    if (h)
        r.hyp = h;
    r.score = score;
    r.score_set = score != SCORE_SENTINEL;
    seg_iter_t *s = decoder_seg_iter(d);
    r.seg_null = s == nullptr;
    for (; s; s = seg_iter_next(s)) {
        SegR x;
        const char *w = seg_iter_word(s);
        x.word = w ? w : "";
        seg_iter_frames(s, &x.sf, &x.ef);
        x.prob = seg_iter_prob(s, &x.ascr, &x.lscr);
        r.segs.push_back(x);
        if (r.segs.size() > 100000)
            break;
    }
    r.n_frames = decoder_n_frames(d);
    return r;
}

static void level(alignment_iter_t *it, std::vector<AlEnt> &out)
{
    for (; it; it = alignment_iter_next(it)) {
        AlEnt e;
        const char *nm = alignment_iter_name(it);
        e.name = nm ? nm : "";
        e.score = alignment_iter_seg(it, &e.start, &e.dur);
        alignment_iter_t *c = alignment_iter_children(it);
        for (; c; c = alignment_iter_next(c))
            e.nchild++;
        out.push_back(e);
        if (out.size() > 1000000)
            break;
    }
}

void capture_alignment(decoder_t *d, Rec &rec)
{
    rec.align_asked = true;
    alignment_t *al = decoder_alignment(d);
    rec.align_null = al == nullptr;
    if (!al)
        return;
    level(alignment_words(al), rec.words);
    level(alignment_phones(al), rec.phones);
    level(alignment_states(al), rec.states);
}

Lat capture_lattice(lattice_t *dag)
{
    Lat L;
    if (!dag)
        return L;
    L.null = false;
    L.n_frames = dag->n_frames;
    std::vector<latnode_t *> raw;
    for (latnode_t *n = dag->nodes; n; n = n->next) {
        raw.push_back(n);
        if (raw.size() > 200000)
            break;
    }
    // canonical order
    auto wordof = [&](latnode_t *n) {
        const char *w = n->wid >= 0 ? dict_wordstr(dag->dict ? dag->dict : dag->search->dict, n->wid) : nullptr;
        return std::string(w ? w : "?");
    };
    std::vector<size_t> order(raw.size());
    for (size_t i = 0; i < raw.size(); ++i)
        order[i] = i;
    std::vector<std::string> words(raw.size());
    for (size_t i = 0; i < raw.size(); ++i)
        words[i] = wordof(raw[i]);
    std::sort(order.begin(), order.end(), [&](size_t a, size_t b) {
        latnode_t *x = raw[a], *y = raw[b];
        if (x->sf != y->sf) return x->sf < y->sf;
        if (words[a] != words[b]) return words[a] < words[b];
        if (x->fef != y->fef) return x->fef < y->fef;
        if (x->lef != y->lef) return x->lef < y->lef;
        return x->node_id < y->node_id;
    });
    std::map<latnode_t *, int> idx;
    for (size_t k = 0; k < order.size(); ++k) {
        latnode_t *n = raw[order[k]];
        idx[n] = (int)k;
        LatNode ln;
        ln.word = words[order[k]];
        ln.sf = n->sf;
        ln.fef = n->fef;
        ln.lef = n->lef;
        ln.node_id = n->node_id;
        L.nodes.push_back(ln);
    }
    for (size_t k = 0; k < order.size(); ++k) {
        latnode_t *n = raw[order[k]];
        for (latlink_list_t *x = n->exits; x; x = x->next) {
            LatLink ll;
            ll.from = (int)k;
            auto it = idx.find(x->link->to);
            ll.to = it == idx.end() ? -1 : it->second;
            ll.ef = x->link->ef;
            ll.ascr = x->link->ascr;
            ll.ptr = x->link;
            L.links.push_back(ll);
        }
    }
    std::stable_sort(L.links.begin(), L.links.end(), [](const LatLink &a, const LatLink &b) {
        if (a.from != b.from) return a.from < b.from;
        if (a.to != b.to) return a.to < b.to;
        return a.ef < b.ef;
    });
    for (size_t k = 0; k < L.links.size(); ++k) {
        L.nodes[(size_t)L.links[k].from].exits.push_back((int)k);
        if (L.links[k].to >= 0)
            L.nodes[(size_t)L.links[k].to].entries.push_back((int)k);
    }
    if (dag->start && idx.count(dag->start))
        L.start = idx[dag->start];
    if (dag->end && idx.count(dag->end))
        L.end = idx[dag->end];
    return L;
}

std::string Lat::canon() const
{
    if (null)
        return "null";
    std::string s = "F" + std::to_string(n_frames) + " S" + std::to_string(start) + " E" + std::to_string(end) + ";";
    for (auto &n : nodes)
        s += n.word + "@" + std::to_string(n.sf) + ":" + std::to_string(n.fef) + "-" + std::to_string(n.lef) + ",";
    s += ";";
    for (auto &l : links)
        s += std::to_string(l.from) + ">" + std::to_string(l.to) + "@" + std::to_string(l.ef) + "/" + std::to_string(l.ascr) + ",";
    return s;
}

} // namespace dec
} // namespace sim
