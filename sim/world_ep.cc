// EP world (C15): the endpointer driven by scripted (or recorded real) VAD decisions, against a queue model.
#include "faults.h"
#include "kernel.h"
#include <cmath>
#include <deque>

extern "C" {
#include <soundswallower/endpointer.h>
#include <soundswallower/vad.h>
}

namespace sim {
namespace {

struct EpWorld : World {
    const char *name() const override { return "ep"; }
    std::vector<std::string> properties() const override { return { "C15" }; }
    bool cheap(const std::string &) const override { return true; }
    int64_t default_runs(const std::string &, int tier) const override { return tier ? 1500000 : 30000; }
    int watchdog_s(const std::string &) const override { return 20; }
    std::string rule(const std::string &) const override
    {
        return "one run = one endpointer configuration (window, ratio, mode, sample rate, frame length; refused ones must fail cleanly) + one seeded script of per-frame "
               "speech/non-speech decisions injected through the wrapped vad_classify (10% of runs: real WebRTC VAD on synthetic audio, decisions recorded) + one end-of-stream "
               "point with a partial frame; an exact queue model written from the header and the property is stepped in lock-step and every returned frame is byte-compared "
               "with the frame the model names. Non-trivial: at least one segment started and the look-back queue wrapped at least once; distinct = distinct plan digest";
    }
    Json components(const std::string &) const override
    {
        Json j = Json::object();
        Json real = Json::array();
        real.push("src/ps_endpointer.c");
        real.push("src/ps_vad.c (init, frame geometry; classification real in pass-through runs)");
        real.push("src/common_audio/vad/* (pass-through runs)");
        j.set("real", real);
        Json stub = Json::array();
        stub.push("vad_classify -> scripted decision sequence (link-time --wrap) in 90% of runs");
        j.set("stub", stub);
        j.set("model", "deque of (frame id, decision) with thresholds start=floor(ratio*L), end=floor((1-ratio)*L+1/2)");
        return j;
    }
    std::vector<std::string> assumptions(const std::string &) const override
    {
        return { "end_stream 'returns the queued speech frames' is read as the leading contiguous run of speech frames (anything else would contradict 'no gaps inside a segment')",
                 "the integer thresholds are start=floor(ratio*L) and end=floor((1-ratio)*L+0.5), L=round(window/frame_length), the rounding the library logs at init",
                 "no call is made after end_stream (the header defines none)" };
    }

    Json generate(const std::string &, uint64_t seed, int tier) override
    {
        (void)tier;
        Rng r(seed);
        Json plan = Json::object();
        plan.set("world", "ep");
        Json cfg = Json::object();
        static const std::vector<double> windows = { 0.05, 0.06, 0.09, 0.1, 0.12, 0.15, 0.2, 0.3, 0.3, 0.45, 0.6, 1.0 };
        static const std::vector<double> ratios = { 0.07, 0.1, 0.2, 0.25, 0.34, 0.4, 0.5, 0.5, 0.6, 0.67, 0.75, 0.8, 0.9, 0.9, 0.95, 0.98 };
        static const std::vector<int> rates = { 8000, 11025, 16000, 16000, 22050, 32000, 44100, 48000 };
        static const std::vector<double> flens = { 0.01, 0.02, 0.03, 0.03 };
        cfg.set("window", r.chance(0.1) ? 0.0 : r.pick(windows));
        cfg.set("ratio", r.chance(0.1) ? 0.0 : r.pick(ratios));
        cfg.set("mode", (long long)r.below(4));
        cfg.set("rate", r.chance(0.05) ? 0 : r.pick(rates));
        cfg.set("flen", r.chance(0.05) ? 0.0 : r.pick(flens));
        bool real = r.chance(0.1);
        cfg.set("real_vad", real);
        cfg.set("audio_seed", (long long)(r.next() & 0xffffff));
        plan.set("cfg", cfg);
        // decision script, run-length encoded
        int total = (int)(r.chance(0.15) ? r.range(200, 2000) : r.range(10, 300));
        int style = (int)r.below(5);
        Json ops = Json::array();
        int made = 0;
        bool sp = style == 3 ? true : r.chance(0.3);
        double p_long = r.unit();
        while (made < total) {
            int n;
            switch (style) {
            case 0: n = (int)r.range(1, 4); break;                          // flicker around thresholds
            case 1: n = (int)r.range(1, 60); break;                         // mixed
            case 2: n = sp ? (int)r.range(20, 120) : (int)r.range(5, 80); break; // long speech / silence
            case 3: n = (int)r.range(1, 40); break;                         // speech from the first frame
            default: n = r.chance(p_long) ? (int)r.range(10, 100) : (int)r.range(1, 3);
            }
            if (n > total - made)
                n = total - made;
            Json op = Json::object();
            op.set("op", "frames");
            if (real) {
                static const std::vector<std::string> kinds = { "silence", "noise", "tone", "loud" };
                op.set("audio", sp ? r.pick(kinds) : std::string("silence"));
            } else
                op.set("speech", sp ? 1 : 0);
            op.set("n", n);
            ops.push(op);
            made += n;
            sp = !sp;
        }
        if (r.chance(0.93)) {
            Json e = Json::object();
            e.set("op", "end");
            // fraction of a frame, in 1/1000; 1001.. means "one more than a frame" (must be refused)
            static const std::vector<int> fr = { 0, 0, 1, 250, 500, 999, 1000, 1000, 1001 };
            e.set("frac", r.pick(fr));
            ops.push(e);
        }
        plan.set("ops", ops);
        return plan;
    }

    struct MFrame {
        int64_t id;
        int sp;
    };

    void execute(const Json &plan, const Ctx &ctx) override
    {
        Outcome &out = *ctx.out;
        const Json &cfg = plan["cfg"];
        double window = cfg.getd("window"), ratio = cfg.getd("ratio");
        int mode = (int)cfg.geti("mode"), rate = (int)cfg.geti("rate");
        double flen_req = cfg.getd("flen");
        bool real = cfg.getb("real_vad");
        vadscript::clear();
        ctx.at(-2);
        endpointer_t *ep = endpointer_init(window, ratio, (vad_mode_t)mode, rate, flen_req);
        out.events.i64(ep != nullptr);
        if (!ep) {
            out.probes["ep.init_refused"]++;
            out.trace.tag("refused");
            return;
        }
        const int fs = (int)endpointer_frame_size(ep);
        const double flen = endpointer_frame_length(ep);
        const int srate = endpointer_sample_rate(ep);
        const double w = window == 0.0 ? ENDPOINTER_DEFAULT_WINDOW : window;
        const double ra = ratio == 0.0 ? ENDPOINTER_DEFAULT_RATIO : ratio;
        const int L = (int)(w / flen + 0.5);
        const int start_frames = (int)(ra * L);
        const int end_frames = (int)((1.0 - ra) * L + 0.5);
        out.events.i64(fs);
        out.events.i64(L);
        auto bad = [&](int opi, const char *inv, const std::string &msg) { out.violate(std::string("C15.") + inv, "mismatch", inv, msg, opi); };
        if (fs <= 0 || flen <= 0 || L < 2) {
            bad(-2, "geometry", "init succeeded with frame_size " + std::to_string(fs) + " window frames " + std::to_string(L));
            endpointer_free(ep);
            return;
        }

        // ---- model
        std::deque<MFrame> q;
        bool m_in = false;
        double m_start = 0, m_end = 0;
        int64_t next_id = 0, popped = 0; // popped+dropped frames: the ring position
        std::vector<std::vector<int16>> fed; // every frame fed, by id
        int64_t last_ret = -1, seg_first = -1;
        int segments = 0;
        bool wrapped = false;
        Rng ar((uint64_t)cfg.geti("audio_seed") + 77);
        double phase = 0;

        auto make_frame = [&](int64_t id, const std::string &audio) {
            std::vector<int16> f((size_t)fs);
            if (!real) {
                for (int j = 0; j < fs; ++j) {
                    uint32_t x = (uint32_t)id * 40503u + (uint32_t)j * 2654435761u;
                    f[(size_t)j] = (int16)((x >> 7) & 0xffff);
                }
            } else if (audio == "silence") {
                for (int j = 0; j < fs; ++j)
                    f[(size_t)j] = (int16)ar.range(-3, 3);
            } else if (audio == "noise") {
                for (int j = 0; j < fs; ++j)
                    f[(size_t)j] = (int16)ar.range(-6000, 6000);
            } else if (audio == "tone") {
                for (int j = 0; j < fs; ++j) {
                    phase += 2 * M_PI * 300.0 / (srate > 0 ? srate : 16000);
                    f[(size_t)j] = (int16)(9000 * std::sin(phase) + 4000 * std::sin(3.1 * phase) + ar.range(-500, 500));
                }
            } else {
                for (int j = 0; j < fs; ++j)
                    f[(size_t)j] = (int16)(((j / 20) & 1) ? 30000 : -30000);
            }
            return f;
        };

        const auto &ops = plan["ops"].a;
        bool ended = false;
        for (size_t n = 0; n < ops.size() && !ended; ++n) {
            const Json &op = ops[n];
            int opi = (int)n;
            ctx.at(opi);
            if (op.gets("op") == "frames") {
                int cnt = (int)op.geti("n", 1);
                for (int c = 0; c < cnt; ++c) {
                    int64_t id = next_id++;
                    // exact-size heap copy: a read past the frame is an ASan error
                    std::vector<int16> fr = make_frame(id, op.gets("audio"));
                    fed.push_back(fr);
                    int16 *heap = (int16 *)malloc(sizeof(int16) * (size_t)fs);
                    memcpy(heap, fr.data(), sizeof(int16) * (size_t)fs);
                    int decision;
                    if (real) {
                        vadscript::record(true);
                    } else {
                        decision = (int)op.geti("speech");
                        vadscript::set({ decision });
                    }
                    size_t rec_before = vadscript::recorded().size();
                    const int16 *ret = endpointer_process(ep, heap);
                    if (real) {
                        decision = vadscript::recorded().size() > rec_before ? vadscript::recorded().back() : 0;
                        if (decision < 0) { // VAD error: the property says nothing; count and treat as the code does (truthy)
                            out.other["ep.vad_error"]++;
                        }
                        out.faults[decision ? "vad.real_speech" : "vad.real_nonspeech"]++;
                    } else
                        out.faults[decision ? "vad.scripted_speech" : "vad.scripted_nonspeech"]++;
                    // ---- model step
                    if ((int)q.size() == L) {
                        q.pop_front();
                        popped++;
                        wrapped = true;
                    }
                    q.push_back(MFrame { id, decision });
                    int count = 0;
                    for (auto &m : q)
                        count += m.sp; // same arithmetic as "number classified as speech" for 0/1 decisions
                    if ((int)q.size() < L && (popped % L) == L - 1)
                        out.probes["ep.partial_queue_at_last_slot"]++;
                    int64_t expect_ret = -1;
                    bool seg_ended = false;
                    if (m_in) {
                        if (count < end_frames) {
                            expect_ret = q.front().id;
                            q.pop_front();
                            popped++;
                            m_end = (double)(expect_ret + 1) * flen;
                            m_in = false;
                            seg_ended = true;
                        }
                    } else if (count > start_frames) {
                        m_start = (double)q.front().id * flen;
                        m_in = true;
                        segments++;
                        seg_first = q.front().id;
                        if (last_ret >= 0 && seg_first == last_ret + 1)
                            out.probes["ep.back_to_back_segments"]++;
                        if ((int)q.size() < L)
                            out.probes["ep.start_before_queue_full"]++;
                    }
                    if (m_in) {
                        expect_ret = q.front().id;
                        q.pop_front();
                        popped++;
                    }
                    // ---- compare
                    out.checks++;
                    out.events.i64(ret ? 1 : 0);
                    out.events.i64(expect_ret);
                    if ((ret != nullptr) != (expect_ret >= 0)) {
                        bad(opi, "returned_frame", std::string("frame ") + std::to_string(id) + ": endpointer returned " + (ret ? "a frame" : "NULL") + ", model expects " +
                                (expect_ret >= 0 ? "frame " + std::to_string(expect_ret) : std::string("NULL")) + " (speech in queue " + std::to_string(count) + ", start>" +
                                std::to_string(start_frames) + " end<" + std::to_string(end_frames) + " of " + std::to_string(L) + ")");
                        free(heap);
                        endpointer_free(ep);
                        return;
                    }
                    if (ret) {
                        if (memcmp(ret, fed[(size_t)expect_ret].data(), sizeof(int16) * (size_t)fs) != 0) {
                            // which frame is it, if any?
                            int64_t which = -1;
                            for (int64_t k = (int64_t)fed.size() - 1; k >= 0 && k >= (int64_t)fed.size() - 3 * L; --k)
                                if (memcmp(ret, fed[(size_t)k].data(), sizeof(int16) * (size_t)fs) == 0)
                                    which = k;
                            bad(opi, "returned_frame", "returned bytes are not frame " + std::to_string(expect_ret) + (which >= 0 ? " but frame " + std::to_string(which) : std::string(" nor any recent frame")));
                            free(heap);
                            endpointer_free(ep);
                            return;
                        }
                        if (last_ret >= 0 && expect_ret <= last_ret)
                            bad(opi, "order", "frame " + std::to_string(expect_ret) + " returned after frame " + std::to_string(last_ret));
                        if (expect_ret != seg_first && expect_ret != last_ret + 1)
                            bad(opi, "gap", "gap inside a segment: " + std::to_string(last_ret) + " -> " + std::to_string(expect_ret));
                        last_ret = expect_ret;
                    }
                    int ins = endpointer_in_speech(ep);
                    if ((ins != 0) != m_in)
                        bad(opi, "in_speech", "in_speech " + std::to_string(ins) + ", model " + std::to_string(m_in));
                    if (m_in || seg_ended) {
                        double s = endpointer_speech_start(ep);
                        if (std::fabs(s - m_start) > 1e-6)
                            bad(opi, "speech_start", "speech_start " + std::to_string(s) + ", first returned frame starts at " + std::to_string(m_start));
                    }
                    if (seg_ended) {
                        double e = endpointer_speech_end(ep);
                        if (std::fabs(e - m_end) > 1e-6)
                            bad(opi, "speech_end", "speech_end " + std::to_string(e) + ", last returned frame ends at " + std::to_string(m_end));
                        out.probes["ep.segment_ended_by_threshold"]++;
                    }
                    free(heap);
                    if (!out.violations.empty()) {
                        endpointer_free(ep);
                        return;
                    }
                }
                out.trace.i64(m_in);
                out.trace.i64((int64_t)q.size() == L);
            } else if (op.gets("op") == "end") {
                ended = true;
                int frac = (int)op.geti("frac");
                size_t nsamp = frac > 1000 ? (size_t)fs + 1 : (size_t)((int64_t)fs * frac / 1000);
                std::vector<int16> tail(nsamp ? nsamp : 1);
                for (size_t j = 0; j < nsamp; ++j)
                    tail[j] = (int16)(0x5a5a ^ (j * 131));
                int16 *heap = (int16 *)malloc(sizeof(int16) * (nsamp ? nsamp : 1));
                memcpy(heap, tail.data(), sizeof(int16) * nsamp);
                size_t outn = 12345;
                if (nsamp > (size_t)fs) {
                    const int16 *ret = endpointer_end_stream(ep, heap, nsamp, &outn);
                    out.checks++;
                    out.probes["ep.end_oversize_refused"]++;
                    if (ret != nullptr)
                        bad(opi, "end_oversize", "end_stream accepted more than one frame of trailing samples");
                    if ((endpointer_in_speech(ep) != 0) != m_in)
                        bad(opi, "end_oversize", "refused end_stream changed in_speech");
                    // now the real end with an empty tail
                    nsamp = 0;
                    outn = 12345;
                }
                const int16 *ret = endpointer_end_stream(ep, heap, nsamp, &outn);
                out.checks++;
                out.events.i64(ret ? (int64_t)outn : -1);
                out.trace.tag("end");
                out.trace.i64(m_in);
                if (!m_in) {
                    out.probes["ep.end_out_of_speech"]++;
                    if (ret != nullptr)
                        bad(opi, "end_stream", "end_stream outside a segment returned data");
                    else if (outn != 0)
                        bad(opi, "end_stream", "end_stream outside a segment reported " + std::to_string(outn) + " samples");
                } else {
                    // leading run of speech frames, plus the partial frame iff that run is the whole queue
                    std::vector<int16> expect;
                    size_t k = 0;
                    double e_end = q.empty() ? (double)next_id * flen : (double)q.front().id * flen;
                    while (k < q.size() && q[k].sp) {
                        expect.insert(expect.end(), fed[(size_t)q[k].id].begin(), fed[(size_t)q[k].id].end());
                        e_end = (double)(q[k].id + 1) * flen;
                        ++k;
                    }
                    bool whole = k == q.size();
                    if (whole) {
                        expect.insert(expect.end(), tail.begin(), tail.begin() + (long)nsamp);
                        e_end = (double)next_id * flen + (double)nsamp / srate;
                        out.probes["ep.end_whole_queue_speech"]++;
                    } else
                        out.probes["ep.end_speech_then_nonspeech"]++;
                    if (q.empty())
                        out.probes["ep.end_empty_queue"]++;
                    if ((int)q.size() < L && (popped % L) != 0)
                        out.probes["ep.end_wrapped_partial_queue"]++;
                    if (!ret)
                        bad(opi, "end_stream", "end_stream inside a segment returned NULL");
                    else if (outn != expect.size())
                        bad(opi, "end_stream", "end_stream returned " + std::to_string(outn) + " samples, model expects " + std::to_string(expect.size()) + " (" + std::to_string(k) +
                                " queued speech frames" + (whole ? " + trailing partial frame" : "") + ")");
                    else if (memcmp(ret, expect.data(), sizeof(int16) * expect.size()) != 0)
                        bad(opi, "end_stream", "end_stream data differ from the queued speech frames + trailing samples");
                    if (endpointer_in_speech(ep))
                        bad(opi, "in_speech", "still in speech after end_stream");
                    double s = endpointer_speech_start(ep), e = endpointer_speech_end(ep);
                    if (std::fabs(s - m_start) > 1e-6)
                        bad(opi, "speech_start", "after end_stream speech_start " + std::to_string(s) + ", model " + std::to_string(m_start));
                    if (std::fabs(e - e_end) > 1e-6)
                        bad(opi, "speech_end", "after end_stream speech_end " + std::to_string(e) + ", model " + std::to_string(e_end));
                    m_in = false;
                }
                free(heap);
            }
        }
        ctx.at((int)ops.size());
        endpointer_free(ep);
        vadscript::clear();
        out.sim_seconds = (double)next_id * flen;
        out.probes["ep.segments"] += segments;
        out.nontrivial = segments > 0 && wrapped;
    }

    std::vector<Json> simplify(const Json &plan) const override
    {
        std::vector<Json> c;
        const auto &ops = plan["ops"].a;
        // halve / decrement run lengths
        for (size_t n = 0; n < ops.size(); ++n) {
            if (ops[n].gets("op") != "frames")
                continue;
            int64_t k = ops[n].geti("n");
            for (int64_t nk : { k / 2, k - 1 }) {
                if (nk < 1 || nk == k)
                    continue;
                Json p = plan;
                Json a = Json::array();
                for (size_t m = 0; m < ops.size(); ++m) {
                    Json o = ops[m];
                    if (m == n)
                        o.set("n", (long long)nk);
                    a.push(o);
                }
                p.set("ops", a);
                c.push_back(p);
            }
        }
        return c;
    }
};

static EpWorld g_ep;
struct Reg {
    Reg() { register_world(&g_ep); }
} g_reg;

} // namespace
} // namespace sim
