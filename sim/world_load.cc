// LOAD world (C17, C10): loaders and parsers behind the simulated file store.  DESIGN.md section 6.
#include "dec.h"
#include <algorithm>
#include <cmath>

extern "C" {
#include <soundswallower/bin_mdef.h>
#include <soundswallower/jsgf.h>
#include <soundswallower/ms_mgau.h>
#include <soundswallower/ptm_mgau.h>
#include <soundswallower/s2_semi_mgau.h>
#include <soundswallower/tmat.h>
// exported by src/decoder.c for the JavaScript binding (js/exported_functions.txt), not declared in decoder.h
fe_t *decoder_init_fe(decoder_t *d);
feat_t *decoder_init_feat_s3file(decoder_t *d, s3file_t *lda);
acmod_t *decoder_init_acmod_pre(decoder_t *d);
int decoder_init_acmod_post(decoder_t *d);
dict_t *decoder_init_dict_s3file(decoder_t *d, s3file_t *dict, s3file_t *fdict);
int decoder_init_grammar_s3file(decoder_t *d, s3file_t *fsg_file, s3file_t *jsgf_file);
}

namespace sim {
namespace {

using namespace dec;

static const std::vector<std::string> MODEL_FILES = { "mdef", "means", "variances", "sendump", "transition_matrices", "feat_params.json", "feature_transform" };

static std::string model_dir(const std::string &m) { return repo_root() + (m == "fr" ? "/model/fr-fr" : "/model/en-us"); }
static std::string file_path(const std::string &m, const std::string &f)
{
    if (f == "feature_transform")
        return repo_root() + "/tests/data/feature_transform";
    return model_dir(m) + "/" + f;
}

static int32_t rd32(const std::string &b, int64_t off)
{
    int32_t v = 0;
    if (off >= 0 && off + 4 <= (int64_t)b.size())
        memcpy(&v, b.data() + off, 4);
    return v;
}

// offsets of the int32 fields that carry counts, dimensions, lengths, magic numbers (located by walking the
// container format in the harness, not by calling the library)
static std::vector<int64_t> locate_fields(const std::string &file, const std::string &b)
{
    std::vector<int64_t> f;
    if (file == "mdef") {
        f = { 0, 4, 8 };
        int64_t p = 12 + rd32(b, 8);
        for (int k = 0; k < 12; ++k)
            f.push_back(p + 4 * k);
    } else if (file == "sendump") {
        int64_t p = 0;
        for (int guard = 0; guard < 64 && p + 4 <= (int64_t)b.size(); ++guard) {
            int32_t n = rd32(b, p);
            f.push_back(p);
            if (n <= 0 || n > 4096) {
                p += 4;
                break;
            }
            p += 4 + n;
        }
        for (int k = 0; k < 6; ++k)
            f.push_back(p + 4 * k);
    } else if (file == "feat_params.json") {
        // text: no binary fields
    } else {
        size_t e = b.find("endhdr\n");
        int64_t p = e == std::string::npos ? 0 : (int64_t)e + 7;
        for (int k = 0; k < 10; ++k)
            f.push_back(p + 4 * k);
        if ((int64_t)b.size() >= 4)
            f.push_back((int64_t)b.size() - 4); // checksum word
    }
    std::vector<int64_t> ok;
    for (int64_t o : f)
        if (o >= 0 && o + 4 <= (int64_t)b.size())
            ok.push_back(o);
    return ok;
}

static std::vector<int64_t> corruption_values(int32_t x)
{
    return { 0, 1, -1, (int64_t)x - 1, (int64_t)x + 1, (int64_t)x * 2, 0x7fffffff, (int64_t)(int32_t)0x80000000, 65536, 1 << 24 };
}

struct LoadWorld : World {
    const char *name() const override { return "load"; }
    std::vector<std::string> properties() const override { return { "C17" }; }
    std::string level(const std::string &) const override { return "fault_enumeration"; }
    int64_t default_runs(const std::string &, int tier) const override { return tier ? 30000 : 700; }
    int watchdog_s(const std::string &) const override { return 120; }

    // ---- enumeration (thorough tier walks it completely before seeded sampling starts)
    std::vector<Json> enumerated;
    std::map<std::string, Json> canary_ref; // model -> record of the canary utterance on an undisturbed decoder

    static Json fault(const std::string &model, const std::string &file, const std::string &kind, int64_t off, int64_t val, int64_t len = 0)
    {
        Json f = Json::object();
        f.set("op", "fault");
        f.set("model", model);
        f.set("file", file);
        f.set("kind", kind);
        if (kind != "enoent")
            f.set("off", (long long)off);
        if (kind == "set_i32" || kind == "flip_bit" || kind == "set_byte")
            f.set("val", (long long)val);
        if (len)
            f.set("len", (long long)len);
        return f;
    }

    static Json plan_with(const std::string &model, const std::vector<Json> &faults, const std::string &via, bool lda)
    {
        Json p = Json::object();
        p.set("world", "load");
        p.set("profile", "C17");
        p.set("model", model);
        p.set("via", via);
        p.set("lda", lda);
        Json ops = Json::array();
        for (auto &f : faults)
            ops.push(f);
        for (const char *o : { "init", "use", "clear", "canary" }) {
            Json j = Json::object();
            j.set("op", o);
            ops.push(j);
        }
        p.set("ops", ops);
        return p;
    }

    void build_enumeration()
    {
        if (!enumerated.empty())
            return;
        for (const std::string model : { "en", "fr" })
            for (auto &file : MODEL_FILES) {
                std::string b;
                if (!vfs::pristine(file_path(model, file), b))
                    continue;
                bool lda = file == "feature_transform";
                if (lda && model == "fr")
                    continue;
                enumerated.push_back(plan_with(model, { fault(model, file, "enoent", 0, 0) }, "init", lda));
                // header fields x corruption values
                for (int64_t off : locate_fields(file, b))
                    for (int64_t v : corruption_values(rd32(b, off)))
                        if ((int32_t)v != rd32(b, off))
                            enumerated.push_back(plan_with(model, { fault(model, file, "set_i32", off, v) }, "init", lda));
                // truncations: every byte of the first 2 KiB (English model; every 7th for the French one), then log-spaced
                int64_t n = (int64_t)b.size();
                std::set<int64_t> cuts;
                for (int64_t k = 0; k < std::min<int64_t>(n, 2048); k += (model == "en" ? 1 : 7))
                    cuts.insert(k);
                for (double x = 2048; x < (double)n; x *= 1.035)
                    cuts.insert((int64_t)x);
                cuts.insert(n - 1);
                cuts.insert(n - 4);
                cuts.insert(n - 5);
                for (int64_t c : cuts)
                    if (c >= 0 && c < n)
                        enumerated.push_back(plan_with(model, { fault(model, file, "truncate", c, 0) }, "init", lda));
            }
    }

    void setup(const std::string &, int) override
    {
        vfs::activate(true);
        audio::load_corpus();
        build_languages();
        err_set_loglevel(ERR_ERROR);
        for (const std::string m : { "en", "fr" })
            for (auto &f : MODEL_FILES)
                vfs::preload(file_path(m, f));
        build_enumeration();
        // canary references, computed once per worker on undisturbed decoders
        for (const std::string m : { "en", "fr" }) {
            Json rec;
            if (!canary(m, rec)) {
                fprintf(stderr, "HARNESS-FAULT: the intact %s model does not load\n", m.c_str());
                exit(2);
            }
            canary_ref[m] = rec;
        }
    }

    static config_t *model_config(const std::string &model, bool lda)
    {
        config_t *c = make_config(model == "fr" ? "fr" : "en");
        if (lda) {
            config_set_str(c, "lda", file_path(model, "feature_transform").c_str());
        }
        return c;
    }

    // init the intact model, decode the canary utterance, free; record out
    static bool canary(const std::string &model, Json &rec)
    {
        decoder_t *d = decoder_init(model_config(model, false));
        if (!d)
            return false;
        bool ok = use(d, model, 30000, &rec);
        decoder_free(d);
        return ok;
    }

    static bool use(decoder_t *d, const std::string &model, int nsamp, Json *rec)
    {
        const char *text = model == "fr" ? "avance de dix mètres" : "go forward ten meters";
        if (decoder_set_align_text(d, text) < 0)
            return false;
        const auto &clip = audio::recording(model == "fr" ? "goforward_fr" : "goforward");
        size_t n = std::min<size_t>(clip.size(), (size_t)nsamp);
        if (decoder_start_utt(d) < 0)
            return false;
        int16_t *heap = (int16_t *)malloc(sizeof(int16_t) * (n ? n : 1));
        memcpy(heap, clip.data(), sizeof(int16_t) * n);
        int rv = decoder_process_int16(d, heap, n, 0, 0);
        free(heap);
        if (rv < 0)
            return false;
        if (decoder_end_utt(d) < 0)
            return false;
        Rec r = capture(d);
        if (rec)
            *rec = r.to_json(false);
        return true;
    }

    std::string rule(const std::string &) const override
    {
        return "one run = a forked copy of a worker holding pristine images of every acoustic-model file of both bundled models in the simulated file store; faults attached to the "
               "files of one model (missing file, truncation at byte k, int32 header field := corrupted value, bit flip, zero/duplicate block, appended garbage, swapped byte-order "
               "marker), then decoder_init (or decoder_create + decoder_reinit, or the in-memory *_s3file entry points the JavaScript binding uses), use of whatever was returned "
               "(alignment grammar + 0.5 s decode + free), then faults cleared and the intact model initialised and the canary utterance compared with an undisturbed decoder's. "
               "The thorough tier first ENUMERATES header-field x value and truncation lists completely, then samples by seed; the quick tier samples the same space by seed. Every "
               "image is an exact-size heap copy, so a read one byte past the file is an ASan error. Non-trivial: at least one fault actually fired; distinct = distinct plan digest";
    }
    Json components(const std::string &) const override
    {
        Json j = Json::object();
        Json real = Json::array();
        for (const char *f : { "src/s3file.c", "src/bin_mdef.c", "src/mdef.c", "src/ms_gauden.c", "src/ms_senone.c", "src/ptm_mgau.c", "src/s2_semi_mgau.c", "src/ms_mgau.c", "src/tmat.c",
                               "src/lda.c", "src/feat.c", "src/acmod.c", "src/config.c", "src/decoder.c", "src/dict.c" })
            real.push(f);
        j.set("real", real);
        Json stub = Json::array();
        stub.push("src/mmio.c -> simulated file store (mmio_file_* and fopen wrapped at link time); real mmap is never used, so 'with/without memory mapping' collapses to "
                  "file-store images (decoder_init) vs caller buffers (*_s3file entry points)");
        j.set("stub", stub);
        return j;
    }
    std::vector<std::string> assumptions(const std::string &) const override
    {
        return { "allocation failure is not injected (the library's stated policy is to exit on OOM); absurd sizes from corrupted counts are capped by the sanitizer allocator "
                 "(max_allocation_size_mb=2048, allocator_may_return_null=1) so that they surface as the library's own exit",
                 "a corrupted float payload may load and give nonsense scores: only memory safety, the failure return and the later intact load are asserted",
                 "the bundled models have no mixture_weights file; the senone dump is the mixture-weight artefact that is damaged",
                 "leaks on failed loads are not asserted (the property does not state it)" };
    }

    Json random_fault(Rng &r, const std::string &model, std::string *file_out)
    {
        std::string file;
        std::string b;
        for (;;) {
            file = r.pick(MODEL_FILES);
            if (file == "feature_transform" && model == "fr")
                continue;
            if (vfs::pristine(file_path(model, file), b))
                break;
        }
        if (file_out)
            *file_out = file;
        int64_t n = (int64_t)b.size();
        std::vector<int64_t> fields = locate_fields(file, b);
        switch (r.weighted({ 5, 30, fields.empty() ? 0 : 35, 12, 5, 4, 4, 5 })) {
        case 0: return fault(model, file, "enoent", 0, 0);
        case 1: {
            int64_t c;
            switch (r.below(5)) {
            case 0: c = (int64_t)r.below((uint64_t)std::min<int64_t>(n, 64)); break;
            case 1: c = (int64_t)r.below((uint64_t)std::min<int64_t>(n, 2048)); break;
            case 2: c = n - 1 - (int64_t)r.below((uint64_t)std::min<int64_t>(n, 16)); break;
            case 3: c = fields.empty() ? 0 : r.pick(fields) + r.range(-1, 5); break;
            default: c = (int64_t)r.below((uint64_t)n);
            }
            return fault(model, file, "truncate", std::max<int64_t>(0, std::min(c, n - 1)), 0);
        }
        case 2: {
            int64_t off = r.pick(fields);
            std::vector<int64_t> vals = corruption_values(rd32(b, off));
            vals.push_back((int64_t)(int32_t)r.next());
            vals.push_back(r.range(2, 300));
            vals.push_back(-r.range(2, 300));
            return fault(model, file, "set_i32", off, r.pick(vals));
        }
        case 3: {
            int64_t off = r.chance(0.6) ? (int64_t)r.below((uint64_t)std::min<int64_t>(n, 1200)) : (int64_t)r.below((uint64_t)n);
            return fault(model, file, "flip_bit", off, (int64_t)r.below(8));
        }
        case 4: return fault(model, file, "zero_block", (int64_t)r.below((uint64_t)n), 0, r.range(1, 4096));
        case 5: return fault(model, file, "dup_block", (int64_t)r.below((uint64_t)std::min<int64_t>(n, 4096)), 0, r.range(1, 64));
        case 6: return fault(model, file, "del_block", (int64_t)r.below((uint64_t)std::min<int64_t>(n, 4096)), 0, r.range(1, 64));
        default: {
            // swapped byte-order marker: the loader byte-swaps everything that follows
            size_t e = b.find("endhdr\n");
            int64_t off = file == "mdef" ? 0 : (e == std::string::npos ? 0 : (int64_t)e + 7);
            int32_t v = rd32(b, off);
            uint32_t u = (uint32_t)v;
            u = (u >> 24) | ((u >> 8) & 0xff00) | ((u << 8) & 0xff0000) | (u << 24);
            return fault(model, file, "set_i32", off, (int64_t)(int32_t)u);
        }
        }
    }

    Json generate(const std::string &p, uint64_t seed, int tier) override { return generate_indexed(p, seed, tier, -1); }
    Json generate_indexed(const std::string &, uint64_t seed, int tier, int64_t index) override
    {
        if (tier && index >= 0 && index < (int64_t)enumerated.size())
            return enumerated[(size_t)index];
        Rng r(seed);
        std::string model = r.chance(0.6) ? "en" : "fr";
        int nf = (int)r.weighted({ 0, 70, 20, 10 });
        std::vector<Json> faults;
        bool lda = false;
        for (int i = 0; i < nf; ++i) {
            std::string file;
            faults.push_back(random_fault(r, model, &file));
            if (file == "feature_transform")
                lda = true;
        }
        static const std::vector<std::string> vias = { "init", "init", "init", "create_reinit", "s3file" };
        std::string via = r.pick(vias);
        if (lda)
            via = "init";
        return plan_with(model, faults, via, lda);
    }

    // ---- execution
    struct Buf {
        char *p = nullptr;
        size_t n = 0;
    };
    static s3file_t *open_mem(const std::string &path, std::vector<Buf> &keep)
    {
        std::string b;
        if (!vfs::pristine(path, b))
            return nullptr;
        if (!vfs::apply(path, b, false, nullptr, nullptr))
            return nullptr; // missing file: the binding gets no buffer
        Buf k;
        k.n = b.size();
        k.p = (char *)malloc(k.n ? k.n : 1);
        memcpy(k.p, b.data(), k.n);
        keep.push_back(k);
        return s3file_init(k.p, k.n);
    }

    // the sequence js/api.js performs, over caller-owned exact-size buffers
    static decoder_t *init_via_s3file(const std::string &model, std::vector<Buf> &keep)
    {
        config_t *c = model_config(model, false);
        decoder_t *d = decoder_create(c);
        if (!d)
            return nullptr;
        auto fail = [&]() {
            decoder_free(d);
            return (decoder_t *)nullptr;
        };
        if (!decoder_init_fe(d) || !decoder_init_feat_s3file(d, NULL) || !decoder_init_acmod_pre(d))
            return fail();
        {
            s3file_t *s = open_mem(file_path(model, "mdef"), keep);
            if (!s)
                return fail();
            bin_mdef_t *m = bin_mdef_read_s3file(s, 0);
            s3file_free(s);
            if (!m)
                return fail();
            d->acmod->mdef = m;
        }
        {
            s3file_t *s = open_mem(file_path(model, "transition_matrices"), keep);
            if (!s)
                return fail();
            tmat_t *t = tmat_init_s3file(s, d->lmath, config_float(d->config, "tmatfloor"));
            s3file_free(s);
            if (!t)
                return fail();
            d->acmod->tmat = t;
        }
        {
            s3file_t *means = open_mem(file_path(model, "means"), keep);
            s3file_t *vars = open_mem(file_path(model, "variances"), keep);
            s3file_t *sendump = open_mem(file_path(model, "sendump"), keep);
            bool ok = means && vars && sendump;
            if (ok) {
                acmod_t *acmod = d->acmod;
                if ((acmod->mgau = ptm_mgau_init_s3file(acmod, means, vars, NULL, sendump)) == NULL) {
                    s3file_rewind(means);
                    s3file_rewind(vars);
                    s3file_rewind(sendump);
                    if ((acmod->mgau = s2_semi_mgau_init_s3file(acmod, means, vars, NULL, sendump)) == NULL) {
                        s3file_rewind(means);
                        s3file_rewind(vars);
                        acmod->mgau = ms_mgau_init_s3file(acmod, means, vars, NULL, NULL);
                    }
                }
                ok = acmod->mgau != NULL;
            }
            s3file_free(means);
            s3file_free(vars);
            s3file_free(sendump);
            if (!ok)
                return fail();
        }
        if (decoder_init_acmod_post(d) < 0)
            return fail();
        {
            s3file_t *dict = open_mem(lang(model).dict_path, keep);
            s3file_t *fdict = open_mem(model_dir(model) + "/noisedict.txt", keep);
            dict_t *dd = decoder_init_dict_s3file(d, dict, fdict);
            s3file_free(dict);
            s3file_free(fdict);
            if (!dd)
                return fail();
        }
        return d;
    }

    void execute(const Json &plan, const Ctx &ctx) override
    {
        Outcome &out = *ctx.out;
        std::string model = plan.gets("model", "en");
        std::string via = plan.gets("via", "init");
        bool lda = plan.getb("lda");
        vfs::clear_faults();
        vfs::fired().clear();
        decoder_t *d = nullptr;
        std::vector<Buf> keep;
        bool inited = false;
        const auto &ops = plan["ops"].a;
        for (size_t k = 0; k < ops.size(); ++k) {
            const Json &op = ops[k];
            ctx.at((int)k);
            const std::string &o = op.gets("op");
            out.trace.str(o);
            if (o == "fault") {
                vfs::Fault f;
                f.target = file_path(op.gets("model", model), op.gets("file"));
                f.kind = op.gets("kind");
                f.off = op.geti("off");
                f.val = op.geti("val");
                f.len = op.geti("len");
                vfs::add_fault(f);
                out.trace.str(op.gets("file") + "/" + f.kind);
            } else if (o == "init") {
                inited = true;
                ctx.set_note("init");
                if (via == "s3file")
                    d = init_via_s3file(model, keep);
                else if (via == "create_reinit") {
                    d = decoder_create(model_config(model, lda));
                    if (d && decoder_reinit(d, NULL) < 0) {
                        decoder_free(d);
                        d = nullptr;
                    }
                } else
                    d = decoder_init(model_config(model, lda));
                out.events.i64(d != nullptr);
                out.checks++;
                out.probes[d ? "load.init_succeeded_despite_fault" : "load.init_reported_failure"]++;
                out.trace.i64(d != nullptr);
            } else if (o == "use") {
                if (d) {
                    // the property: ends by reporting failure, OR (corruption landed in payload) a usable object
                    ctx.set_note("use");
                    bool ok = use(d, model, 8000, nullptr);
                    out.events.i64(ok);
                    decoder_free(d);
                    d = nullptr;
                    out.probes["load.loaded_model_used_and_freed"]++;
                }
            } else if (o == "clear") {
                if (d) {
                    decoder_free(d);
                    d = nullptr;
                }
                for (auto &b : keep)
                    free(b.p);
                keep.clear();
                for (auto &kv : vfs::fired())
                    out.faults[kv.first] += kv.second;
                vfs::clear_faults();
            } else if (o == "canary") {
                if (!inited)
                    continue;
                ctx.set_note("canary");
                Json rec;
                bool ok = canary(model, rec);
                out.checks++;
                if (!ok)
                    out.violate("C17.intact_model_loads_afterwards", "mismatch", "canary_init", "after the failed load the intact model no longer initialises or decodes", (int)k);
                else if (rec.dump() != canary_ref[model].dump())
                    out.violate("C17.intact_model_loads_afterwards", "mismatch", "canary_result",
                                "after the failed load the intact model decodes the canary utterance differently: " + rec.dump().substr(0, 200) + " vs " + canary_ref[model].dump().substr(0, 200), (int)k);
                out.events.str(rec.dump());
            }
        }
        ctx.at((int)ops.size());
        if (d)
            decoder_free(d);
        for (auto &b : keep)
            free(b.p);
        for (auto &kv : vfs::fired())
            out.faults[kv.first] += kv.second;
        vfs::clear_faults();
        int64_t fired = 0;
        for (auto &kv : out.faults)
            fired += kv.second;
        out.nontrivial = fired > 0 && inited;
        out.sim_seconds = 0.5 + 1.9;
    }

    // class trigger: "<file>/<fault kind>" of the single fault, or of the file being opened when several are attached
    std::string crash_trigger(const Json &plan, int op, const std::string &note) const override
    {
        (void)op;
        std::vector<const Json *> faults;
        for (auto &o : plan["ops"].a)
            if (o.gets("op") == "fault")
                faults.push_back(&o);
        std::string phase = note.empty() ? "init" : note;
        if (faults.size() == 1)
            return faults[0]->gets("file") + "/" + faults[0]->gets("kind") + "@" + phase;
        if (faults.empty())
            return "nofault@" + phase;
        return "multi@" + phase;
    }

    std::vector<Json> simplify(const Json &plan) const override
    {
        std::vector<Json> c;
        const auto &ops = plan["ops"].a;
        if (plan.gets("via") != "init") {
            Json p = plan;
            p.set("via", "init");
            c.push_back(p);
        }
        if (plan.gets("model") == "fr") {
            Json p = plan;
            p.set("model", "en");
            Json a = Json::array();
            for (auto &o : ops) {
                Json o2 = o;
                if (o.gets("op") == "fault")
                    o2.set("model", "en");
                a.push(o2);
            }
            p.set("ops", a);
            c.push_back(p);
        }
        return c;
    }
};

static LoadWorld g_load;
struct Reg {
    Reg() { register_world(&g_load); }
} g_reg;

} // namespace
} // namespace sim
