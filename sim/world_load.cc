// LOAD world (C17, C10): loaders and parsers behind the simulated file store.  DESIGN.md section 6.
#include "dec.h"
#include <dirent.h>
#include <sys/resource.h>
#include <set>
#include <sstream>
#include <algorithm>
#include <cmath>

extern "C" {
#include <soundswallower/bin_mdef.h>
#include <soundswallower/jsgf.h>
#include <soundswallower/ms_mgau.h>
#include <soundswallower/ptm_mgau.h>
#include <soundswallower/s2_semi_mgau.h>
#include <soundswallower/tmat.h>
// exported by src/decoder.c for the JavaScript binding (js/exported_functions.txt), not declared in decoder.h
fe_t *decoder_init_fe(decoder_t *d);
feat_t *decoder_init_feat_s3file(decoder_t *d, s3file_t *lda);
acmod_t *decoder_init_acmod_pre(decoder_t *d);
int decoder_init_acmod_post(decoder_t *d);
dict_t *decoder_init_dict_s3file(decoder_t *d, s3file_t *dict, s3file_t *fdict);
int decoder_init_grammar_s3file(decoder_t *d, s3file_t *fsg_file, s3file_t *jsgf_file);
}

namespace sim {
namespace {

using namespace dec;

static const std::vector<std::string> MODEL_FILES = { "mdef", "means", "variances", "sendump", "transition_matrices", "feat_params.json", "feature_transform" };

static std::string model_dir(const std::string &m) { return repo_root() + (m == "fr" ? "/model/fr-fr" : "/model/en-us"); }
static std::string file_path(const std::string &m, const std::string &f)
{
    if (f == "feature_transform")
        return repo_root() + "/tests/data/feature_transform";
    return model_dir(m) + "/" + f;
}

static int32_t rd32(const std::string &b, int64_t off)
{
    int32_t v = 0;
    if (off >= 0 && off + 4 <= (int64_t)b.size())
        memcpy(&v, b.data() + off, 4);
    return v;
}

// offsets of the int32 fields that carry counts, dimensions, lengths, magic numbers (located by walking the
// container format in the harness, not by calling the library)
static std::vector<int64_t> locate_fields(const std::string &file, const std::string &b)
{
    std::vector<int64_t> f;
    if (file == "mdef") {
        f = { 0, 4, 8 };
        int64_t p = 12 + rd32(b, 8);
        for (int k = 0; k < 12; ++k)
            f.push_back(p + 4 * k);
        // the count embedded in the data, behind names (NUL-terminated, padded to 4), tree (8 bytes a node) and phone
        // table (12 bytes an entry): header counts in the order n_ciphone, n_phone, ..., n_cd_tree (ninth), sil
        if (p + 40 <= (int64_t)b.size()) {
            int64_t n_ci = rd32(b, p), n_phone = rd32(b, p + 4), n_tree = rd32(b, p + 32), q = p + 40;
            bool ok = n_ci > 0 && n_ci < 1000 && n_phone > 0 && n_tree >= 0;
            for (int64_t i = 0; ok && i < n_ci; ++i) {
                size_t z = b.find('\0', (size_t)q);
                if (z == std::string::npos)
                    ok = false;
                else
                    q = (int64_t)z + 1;
            }
            if (ok) {
                q = p + 40 + (((q - (p + 40)) + 3) & ~(int64_t)3);
                q += n_tree * 8 + n_phone * 12;
                if (q + 4 <= (int64_t)b.size())
                    f.push_back(q); // sseq_size
            }
        }
    } else if (file == "sendump") {
        int64_t p = 0;
        for (int guard = 0; guard < 64 && p + 4 <= (int64_t)b.size(); ++guard) {
            int32_t n = rd32(b, p);
            f.push_back(p);
            if (n <= 0 || n > 4096) {
                p += 4;
                break;
            }
            p += 4 + n;
        }
        for (int k = 0; k < 6; ++k)
            f.push_back(p + 4 * k);
    } else if (file == "feat_params.json") {
        // text: no binary fields
    } else {
        size_t e = b.find("endhdr\n");
        int64_t p = e == std::string::npos ? 0 : (int64_t)e + 7;
        for (int k = 0; k < 10; ++k)
            f.push_back(p + 4 * k);
        if ((int64_t)b.size() >= 4)
            f.push_back((int64_t)b.size() - 4); // checksum word
    }
    std::vector<int64_t> ok;
    for (int64_t o : f)
        if (o >= 0 && o + 4 <= (int64_t)b.size())
            ok.push_back(o);
    return ok;
}

static std::vector<int64_t> corruption_values(int32_t x)
{
    return { 0, 1, -1, (int64_t)x - 1, (int64_t)x + 1, (int64_t)x * 2, 0x7fffffff, (int64_t)(int32_t)0x80000000, 65536, 1 << 24 };
}


// ---------------------------------------------------------------- C10: untrusted text artefacts
static const std::vector<std::string> C10_KINDS = { "jsgf_string", "jsgf_file", "fsg_file", "fsg_buf", "dict_file", "fdict_file", "json_string", "featparams_file", "align_text", "add_word", "cmn_text" };

static std::string valid_artefact(Rng &r, const std::string &kind)
{
    const Lang &L = lang("en");
    if (kind == "jsgf_string" || kind == "jsgf_file") {
        if (r.chance(0.15)) {
            std::string t;
            if (vfs::pristine(repo_root() + (r.chance(0.5) ? "/tests/data/pizza.gram" : "/tests/data/goforward.gram"), t))
                return t;
        }
        if (r.chance(0.1))
            return "#JSGF V1.0;\ngrammar top;\nimport <sub.words>;\npublic <s> = go <words> | <sub.words>;\n";
        return grammar::gen_jsgf(r, L.vocab).gets("text");
    }
    if (kind == "fsg_file" || kind == "fsg_buf") {
        if (r.chance(0.12)) { // a command list: few states, many distinct words (vocabulary-sized tables outgrow state-sized ones)
            int ns = (int)r.range(2, 5), nw = (int)r.pick(std::vector<int> { 20, 24, 30, 31, 33, 40, 63, 65, 90 });
            std::ostringstream o;
            o << "FSG_BEGIN cmds\nNUM_STATES " << ns << "\nSTART_STATE 0\nFINAL_STATE " << ns - 1 << "\n";
            std::set<std::string> used;
            for (int i = 0; i < nw; ++i) {
                std::string w = r.pick(L.vocab);
                if (!used.insert(w).second)
                    continue;
                int f = (int)r.below((uint64_t)ns - 1);
                o << "TRANSITION " << f << " " << f + 1 << " " << (r.chance(0.5) ? "1.0" : "0.1") << " " << w << "\n";
            }
            o << "FSG_END\n";
            return o.str();
        }
        return r.chance(0.2) ? grammar::fixed("goforward_fsg").gets("text") : grammar::gen_fsg(r, L.vocab).gets("text");
    }
    if (kind == "dict_file") {
        // an excerpt of the small dictionary
        std::string t;
        size_t pos = 0;
        int lines = (int)r.range(3, 40), n = 0;
        size_t start = r.below(L.dict_text.size());
        start = L.dict_text.find('\n', start);
        pos = start == std::string::npos ? 0 : start + 1;
        while (n < lines && pos < L.dict_text.size()) {
            size_t e = L.dict_text.find('\n', pos);
            if (e == std::string::npos)
                break;
            t += L.dict_text.substr(pos, e - pos + 1);
            pos = e + 1;
            n++;
        }
        if (r.chance(0.12)) { // legal but unusual: a one-phone first entry and an entry with a very long pronunciation
            std::string longline = "loooong";
            int np = r.pick(std::vector<int> { 14, 25, 40, 90, 250 });
            for (int q = 0; q < np; ++q)
                longline += " " + r.pick(L.phones);
            size_t at = t.find('\n', t.size() ? r.below(t.size()) : 0);
            t.insert(at == std::string::npos ? t.size() : at + 1, longline + "\n");
            if (r.chance(0.7))
                t = "a AH\n" + t;
        }
        return t;
    }
    if (kind == "fdict_file")
        return "<s> SIL\n</s> SIL\n<sil> SIL\n[NOISE] +NSN+\n[SPEECH] +SPN+\n";
    if (kind == "json_string" || kind == "featparams_file") {
        static const std::vector<std::string> js = {
            "{\"lowerf\": 130, \"upperf\": 3700, \"nfilt\": 20, \"transform\": \"dct\", \"lifter\": 22, \"feat\": \"1s_c_d_dd\", \"svspec\": \"0-12/13-25/26-38\", \"cmn\": \"current\", \"varnorm\": false, \"remove_noise\": true}",
            "{\"samprate\": 16000, \"frate\": 100, \"wlen\": 0.025625, \"nfft\": 512, \"ncep\": 13, \"beam\": 1e-48, \"wbeam\": 7e-29, \"lw\": 6.5}",
            "{\"loglevel\": \"ERROR\", \"cmninit\": \"40,3,-1\", \"fsgusefiller\": true, \"silprob\": 0.005, \"fillprob\": 1e-8, \"dictcase\": false}",
            "hmm: /x/y\nbeam: 1e-30\nremove_dc: yes\n",
            "{\"logbase\": 1.0001, \"topn\": 4, \"ds\": 1, \"aw\": 1, \"compallsen\": \"yes\", \"dither\": false, \"seed\": -1}" };
        return r.pick(js);
    }
    if (kind == "align_text") {
        std::string t;
        int n = (int)r.range(1, 8);
        for (int i = 0; i < n; ++i)
            t += (i ? " " : "") + r.pick(L.vocab);
        return t;
    }
    if (kind == "add_word") {
        // "word\tphones"
        std::string w = r.pick(L.vocab) + (r.chance(0.3) ? "(2)" : "x");
        std::string ph;
        int n = (int)r.range(1, 6);
        for (int i = 0; i < n; ++i)
            ph += (i ? " " : "") + r.pick(L.phones);
        return w + "\t" + ph;
    }
    return "40,3,-1,0.5,0,0,0,0,0,0,0,0,0";
}

static std::string mutate_text(Rng &r, std::string t, const std::string &kind, std::map<std::string, int> *applied)
{
    static const std::vector<std::string> tokens = {
        "<", ">", "(", ")", "[", "]", "*", "+", "|", ";", "=", "{", "}", "/", "\"", "\\", "#JSGF V1.0;", "grammar ", "public ", "import <a.b>;", "<NULL>", "<VOID>", "/1e308/", "/-1/", "/0/",
        "FSG_BEGIN", "FSG_END", "NUM_STATES 99999999", "NUM_STATES -1", "NUM_STATES 0", "START_STATE 7777", "FINAL_STATE -3", "TRANSITION -1 2 1.0 go", "TRANSITION 0 99999 0.5", "TRANSITION 0 1 1e308 go",
        "TRANSITION 0 1 -5 go", "TRANSITION 0 1 nan go", "TRANSITION 0 1 0 go", "(2)", "(99999999999)", "()", "SIL", "+NSN+", "ZZ", ":", ",", "true", "null", "1e308", "-0", "99999999999999999999", "\n", "\r\n", "\t", " ",
        "\xff\xfe", "\xc3", "\xe2\x82", "\x01", "\x7f", "%s%n", "<s>", "</s>", "<sil>", "go", "{\"a\":{\"b\":", "]]]]", "\\u0000", "\\u12", "##", ";;"
    };
    int k = (int)r.weighted({ 10, 45, 25, 12, 8 });
    auto note = [&](const char *m) {
        if (applied)
            (*applied)[m]++;
    };
    for (int i = 0; i < k; ++i) {
        size_t n = t.size();
        switch (r.weighted({ 14, 10, 10, 8, 8, 18, 6, 5, 4, 5, 4, 8, 7 })) {
        case 0: // truncate
            if (n) { t.resize(r.below(n)); note("text.truncate"); }
            break;
        case 1: // flip bit
            if (n) { size_t o = r.below(n); t[o] = (char)(t[o] ^ (1 << r.below(8))); note("text.flip_bit"); }
            break;
        case 2: // set byte
            if (n) {
                static const std::vector<int> bytes = { 0, 1, 9, 10, 13, 27, 32, 34, 92, 127, 128, 192, 255 };
                t[r.below(n)] = (char)r.pick(bytes);
                note("text.set_byte");
            }
            break;
        case 3: // delete block
            if (n) { size_t o = r.below(n); t.erase(o, (size_t)r.range(1, 20)); note("text.del_block"); }
            break;
        case 4: // duplicate block
            if (n) { size_t o = r.below(n); std::string b = t.substr(o, (size_t)r.range(1, 40)); t.insert(o, b); note("text.dup_block"); }
            break;
        case 5: // insert token
            t.insert(n ? r.below(n + 1) : 0, r.pick(tokens));
            note("text.insert_token");
            break;
        case 6: { // over-long token
            size_t len = (size_t)r.pick(std::vector<int> { 300, 1023, 1024, 1025, 4096, 70000 });
            t.insert(n ? r.below(n + 1) : 0, std::string(len, (char)('a' + r.below(26))));
            note("text.long_token");
            break;
        }
        case 7: { // deep nesting
            // closed nests of >= ~200 optionals make the JSGF null-transition closure blow up (known finding): keep
            // them rare so that they do not eat the run budget, but reachable
            size_t depth = (size_t)r.pick(std::vector<int> { 40, 40, 120, 120, 3000, 3000, 3000, 400 });
            std::string open = r.chance(0.5) ? "(" : "[", close = open == "(" ? ")" : "]";
            if (kind.find("json") != std::string::npos || kind == "featparams_file") {
                open = r.chance(0.5) ? "[" : "{\"a\":";
                close = open == "[" ? "]" : "}";
            }
            std::string s;
            for (size_t d = 0; d < depth; ++d)
                s += open;
            s += " go ";
            if (depth <= 400 && r.chance(0.7))
                for (size_t d = 0; d < depth; ++d)
                    s += close;
            t.insert(n ? r.below(n + 1) : 0, s);
            note("text.deep_nesting");
            break;
        }
        case 8: { // numeric field -> edge value
            size_t o = n ? r.below(n) : 0;
            size_t d = t.find_first_of("0123456789", o);
            if (d != std::string::npos) {
                size_t e = t.find_first_not_of("0123456789.eE-+", d);
                static const std::vector<std::string> vals = { "0", "-1", "1e308", "99999999999", "2147483648", "-2147483649", "nan", "inf", "1e-400", "0x7fffffff", "" };
                t.replace(d, (e == std::string::npos ? n : e) - d, r.pick(vals));
                note("text.numeric_edge");
            }
            break;
        }
        case 9: // drop the terminator / last line
            if (n > 2) {
                size_t e = t.rfind('\n', n - 2);
                if (e != std::string::npos) { t.resize(e + (r.chance(0.5) ? 1 : 0)); note("text.drop_last_line"); }
            }
            break;
        case 10: { // splice with another artefact
            std::string other = valid_artefact(r, r.pick(C10_KINDS));
            size_t a = n ? r.below(n) : 0, b = other.size() ? r.below(other.size()) : 0;
            t = t.substr(0, a) + other.substr(b);
            note("text.splice");
            break;
        }
        case 11: { // one whitespace-delimited element repeated many times (long pronunciations, long sequences, long lists)
            if (!n)
                break;
            size_t o = r.below(n);
            size_t b = t.find_last_of(" \t\n", o);
            b = b == std::string::npos ? 0 : b + 1;
            size_t e = t.find_first_of(" \t\n", b);
            if (e == std::string::npos)
                e = n;
            std::string tok = t.substr(b, e - b);
            if (tok.empty() || tok.size() > 40)
                break;
            int times = r.pick(std::vector<int> { 3, 12, 13, 25, 31, 60, 130, 300, 2000 });
            std::string rep;
            for (int q = 0; q < times; ++q)
                rep += " " + tok;
            t.insert(e, rep);
            note("text.repeat_element");
            break;
        }
        default: { // unstructured bytes
            size_t len = (size_t)r.range(1, 64);
            std::string s;
            for (size_t q = 0; q < len; ++q)
                s += (char)r.below(256);
            if (r.chance(0.3))
                t = s;
            else
                t.insert(n ? r.below(n + 1) : 0, s);
            note("text.random_bytes");
        }
        }
        if (t.size() > 300000)
            t.resize(300000);
    }
    return t;
}

static int64_t count_fds()
{
    int64_t n = 0;
    if (DIR *dp = opendir("/proc/self/fd")) {
        while (readdir(dp))
            n++;
        closedir(dp);
    }
    return n;
}
static int highest_fd()
{
    int hi = -1;
    if (DIR *dp = opendir("/proc/self/fd")) {
        while (struct dirent *e = readdir(dp)) {
            int v = atoi(e->d_name);
            if (e->d_name[0] >= '0' && e->d_name[0] <= '9' && v > hi)
                hi = v;
        }
        closedir(dp);
    }
    return hi;
}

struct LoadWorld : World {
    const char *name() const override { return "load"; }
    std::vector<std::string> properties() const override { return { "C17", "C10" }; }
    std::string level(const std::string &) const override { return "fault_enumeration"; }
    int64_t default_runs(const std::string &p, int tier) const override { return p == "C10" ? (tier ? 300000 : 5000) : (tier ? 30000 : 1500); }
    int watchdog_s(const std::string &p) const override { return p == "C10" ? 25 : 120; }

    // ---- enumeration (thorough tier walks it completely before seeded sampling starts)
    std::vector<Json> enumerated;
    std::map<std::string, Json> canary_ref; // model -> record of the canary utterance on an undisturbed decoder

    static Json fault(const std::string &model, const std::string &file, const std::string &kind, int64_t off, int64_t val, int64_t len = 0)
    {
        Json f = Json::object();
        f.set("op", "fault");
        f.set("model", model);
        f.set("file", file);
        f.set("kind", kind);
        if (kind != "enoent")
            f.set("off", (long long)off);
        if (kind == "set_i32" || kind == "flip_bit" || kind == "set_byte")
            f.set("val", (long long)val);
        if (len)
            f.set("len", (long long)len);
        return f;
    }

    static Json plan_with(const std::string &model, const std::vector<Json> &faults, const std::string &via, bool lda)
    {
        Json p = Json::object();
        p.set("world", "load");
        p.set("profile", "C17");
        p.set("model", model);
        p.set("via", via);
        p.set("lda", lda);
        Json ops = Json::array();
        for (auto &f : faults)
            ops.push(f);
        for (const char *o : { "init", "use", "clear", "canary" }) {
            Json j = Json::object();
            j.set("op", o);
            ops.push(j);
        }
        p.set("ops", ops);
        return p;
    }

    static Json with_store(Json p)
    {
        p.set("store", "mmap");
        p.set("repeat", 12);
        return p;
    }

    void build_enumeration()
    {
        if (!enumerated.empty())
            return;
        for (const std::string model : { "en", "fr" })
            for (auto &file : MODEL_FILES) {
                std::string b;
                if (!vfs::pristine(file_path(model, file), b))
                    continue;
                bool lda = file == "feature_transform";
                if (lda && model == "fr")
                    continue;
                enumerated.push_back(plan_with(model, { fault(model, file, "enoent", 0, 0) }, "init", lda));
                // header fields x corruption values
                for (int64_t off : locate_fields(file, b))
                    for (int64_t v : corruption_values(rd32(b, off)))
                        if ((int32_t)v != rd32(b, off))
                            enumerated.push_back(plan_with(model, { fault(model, file, "set_i32", off, v) }, "init", lda));
                // truncations: every byte of the first 2 KiB (English model; every 7th for the French one), then log-spaced
                int64_t n = (int64_t)b.size();
                std::set<int64_t> cuts;
                for (int64_t k = 0; k < std::min<int64_t>(n, 2048); k += (model == "en" ? 1 : 7))
                    cuts.insert(k);
                for (double x = 2048; x < (double)n; x *= 1.035)
                    cuts.insert((int64_t)x);
                cuts.insert(n - 1);
                cuts.insert(n - 4);
                cuts.insert(n - 5);
                for (int64_t c : cuts)
                    if (c >= 0 && c < n)
                        enumerated.push_back(plan_with(model, { fault(model, file, "truncate", c, 0) }, "init", lda));
            }
    }

    decoder_t *c10_dec = nullptr;
    void setup(const std::string &prop, int) override
    {
        vfs::activate(true);
        audio::load_corpus();
        build_languages();
        err_set_loglevel(ERR_ERROR);
        if (prop == "C10") {
            c10_dec = make_decoder("en");
            if (!c10_dec) {
                fprintf(stderr, "HARNESS-FAULT: template decoder failed to initialise\n");
                exit(2);
            }
            vfs::preload(repo_root() + "/tests/data/pizza.gram");
            vfs::preload(repo_root() + "/tests/data/goforward.gram");
            return;
        }
        for (const std::string m : { "en", "fr" })
            for (auto &f : MODEL_FILES)
                vfs::preload(file_path(m, f));
        build_enumeration();
        build_critical();
        // canary references, computed once per worker on undisturbed decoders
        for (const std::string m : { "en", "fr" }) {
            Json rec;
            if (!canary(m, rec)) {
                fprintf(stderr, "HARNESS-FAULT: the intact %s model does not load\n", m.c_str());
                exit(2);
            }
            canary_ref[m] = rec;
        }
    }

    static config_t *model_config(const std::string &model, bool lda)
    {
        config_t *c = make_config(model == "fr" ? "fr" : "en");
        if (lda) {
            config_set_str(c, "lda", file_path(model, "feature_transform").c_str());
        }
        return c;
    }

    // init the intact model, decode the canary utterance, free; record out
    static bool canary(const std::string &model, Json &rec)
    {
        decoder_t *d = decoder_init(model_config(model, false));
        if (!d)
            return false;
        bool ok = use(d, model, 30000, &rec);
        decoder_free(d);
        return ok;
    }

    static bool use(decoder_t *d, const std::string &model, int nsamp, Json *rec)
    {
        const char *text = model == "fr" ? "avance de dix mètres" : "go forward ten meters";
        if (decoder_set_align_text(d, text) < 0)
            return false;
        const auto &clip = audio::recording(model == "fr" ? "goforward_fr" : "goforward");
        size_t n = std::min<size_t>(clip.size(), (size_t)nsamp);
        if (decoder_start_utt(d) < 0)
            return false;
        int16_t *heap = (int16_t *)malloc(sizeof(int16_t) * (n ? n : 1));
        memcpy(heap, clip.data(), sizeof(int16_t) * n);
        int rv = decoder_process_int16(d, heap, n, 0, 0);
        free(heap);
        if (rv < 0)
            return false;
        if (decoder_end_utt(d) < 0)
            return false;
        Rec r = capture(d);
        if (rec)
            *rec = r.to_json(false);
        return true;
    }

    std::string rule(const std::string &p) const override
    {
        if (p == "C10")
            return "one run = a forked copy of a worker holding one initialised decoder; 1-6 parse operations, each a valid artefact (generated JSGF/FSG, dictionary excerpt, filler "
                   "dictionary, JSON / key-value configuration, alignment text, word+pronunciation, CMN text) damaged by 0-4 structured mutations (truncation, bit flip, control/non-UTF-8 "
                   "byte, block delete/duplicate, syntax-token insertion, over-long token, deep nesting, numeric edge value, dropped terminator, splice of two artefacts, random bytes) "
                   "and handed to the library either as a STORED file through the simulated file layer (mmio image or fopen stream, optionally with a short read or EIO at byte k) or as "
                   "an in-memory string; whatever is returned is used (grammar activated and 0.3 s decoded, configuration used for fe/feat init, dictionary looked up) and freed. "
                   "Oracle: terminates within the watchdog, no memory error/assert/exit, failure only through the return value. Non-trivial: at least one mutation or I/O fault was "
                   "applied and at least one parse call returned; distinct = distinct plan digest";
        return "one run = a forked copy of a worker holding pristine images of every acoustic-model file of both bundled models in the simulated file store; faults attached to the "
               "files of one model (missing file, truncation at byte k, int32 header field := corrupted value, bit flip, zero/duplicate block, appended garbage, swapped byte-order "
               "marker), then decoder_init (or decoder_create + decoder_reinit, or the in-memory *_s3file entry points the JavaScript binding uses), use of whatever was returned "
               "(alignment grammar + 0.5 s decode + free), then faults cleared and the intact model initialised and the canary utterance compared with an undisturbed decoder's. "
               "The thorough tier first ENUMERATES header-field x value and truncation lists completely, then samples by seed; the quick tier samples the same space by seed. Every "
               "image is an exact-size heap copy, so a read one byte past the file is an ASan error. Non-trivial: at least one fault actually fired; distinct = distinct plan digest";
    }
    Json components(const std::string &) const override
    {
        Json j = Json::object();
        Json real = Json::array();
        for (const char *f : { "src/s3file.c", "src/bin_mdef.c", "src/mdef.c", "src/ms_gauden.c", "src/ms_senone.c", "src/ptm_mgau.c", "src/s2_semi_mgau.c", "src/ms_mgau.c", "src/tmat.c",
                               "src/lda.c", "src/feat.c", "src/acmod.c", "src/config.c", "src/decoder.c", "src/dict.c" })
            real.push(f);
        j.set("real", real);
        Json stub = Json::array();
        real.push("src/mmio.c (one plan in five and 4 edge plans per model file: the faulted image is a memory-backed file handed to the real open/fstat/mmap/close, the refused load "
                  "repeated 12 times under a budget of 10 spare descriptors)");
        stub.push("src/mmio.c in the other plans -> simulated file store (mmio_file_* and fopen wrapped at link time) with exact-size heap images, where one byte past the file is a "
                  "sanitizer error (a real mapping is padded to the page and would hide it)");
        j.set("stub", stub);
        return j;
    }
    std::vector<std::string> assumptions(const std::string &) const override
    {
        return { "allocation failure is not injected (the library's stated policy is to exit on OOM); absurd sizes from corrupted counts are capped by the sanitizer allocator "
                 "(max_allocation_size_mb=2048, allocator_may_return_null=1) so that they surface as the library's own exit",
                 "a corrupted float payload may load and give nonsense scores: only memory safety, the failure return and the later intact load are asserted",
                 "the bundled models have no mixture_weights file; the senone dump is the mixture-weight artefact that is damaged",
                 "leaks on failed loads are not asserted (the property does not state it)" };
    }

    Json random_fault(Rng &r, const std::string &model, std::string *file_out)
    {
        std::string file;
        std::string b;
        for (;;) {
            file = r.pick(MODEL_FILES);
            if (file == "feature_transform" && model == "fr")
                continue;
            if (vfs::pristine(file_path(model, file), b))
                break;
        }
        if (file_out)
            *file_out = file;
        int64_t n = (int64_t)b.size();
        std::vector<int64_t> fields = locate_fields(file, b);
        switch (r.weighted({ 5, 30, fields.empty() ? 0 : 35, 12, 5, 4, 4, 5 })) {
        case 0: return fault(model, file, "enoent", 0, 0);
        case 1: {
            int64_t c;
            switch (r.below(5)) {
            case 0: c = (int64_t)r.below((uint64_t)std::min<int64_t>(n, 64)); break;
            case 1: c = (int64_t)r.below((uint64_t)std::min<int64_t>(n, 2048)); break;
            case 2: c = n - 1 - (int64_t)r.below((uint64_t)std::min<int64_t>(n, 16)); break;
            case 3: c = fields.empty() ? 0 : r.pick(fields) + r.range(-1, 5); break;
            default: c = (int64_t)r.below((uint64_t)n);
            }
            return fault(model, file, "truncate", std::max<int64_t>(0, std::min(c, n - 1)), 0);
        }
        case 2: {
            int64_t off = r.pick(fields);
            std::vector<int64_t> vals = corruption_values(rd32(b, off));
            vals.push_back((int64_t)(int32_t)r.next());
            vals.push_back(r.range(2, 300));
            vals.push_back(-r.range(2, 300));
            return fault(model, file, "set_i32", off, r.pick(vals));
        }
        case 3: {
            int64_t off = r.chance(0.6) ? (int64_t)r.below((uint64_t)std::min<int64_t>(n, 1200)) : (int64_t)r.below((uint64_t)n);
            return fault(model, file, "flip_bit", off, (int64_t)r.below(8));
        }
        case 4: return fault(model, file, "zero_block", (int64_t)r.below((uint64_t)n), 0, r.range(1, 4096));
        case 5: return fault(model, file, "dup_block", (int64_t)r.below((uint64_t)std::min<int64_t>(n, 4096)), 0, r.range(1, 64));
        case 6: return fault(model, file, "del_block", (int64_t)r.below((uint64_t)std::min<int64_t>(n, 4096)), 0, r.range(1, 64));
        default: {
            // swapped byte-order marker: the loader byte-swaps everything that follows
            size_t e = b.find("endhdr\n");
            int64_t off = file == "mdef" ? 0 : (e == std::string::npos ? 0 : (int64_t)e + 7);
            int32_t v = rd32(b, off);
            uint32_t u = (uint32_t)v;
            u = (u >> 24) | ((u >> 8) & 0xff00) | ((u << 8) & 0xff0000) | (u << 24);
            return fault(model, file, "set_i32", off, (int64_t)(int32_t)u);
        }
        }
    }

    Json generate(const std::string &p, uint64_t seed, int tier) override { return generate_indexed(p, seed, tier, -1); }
    Json generate_c10(uint64_t seed)
    {
        Rng r(seed);
        Json p = Json::object();
        p.set("world", "load");
        p.set("profile", "C10");
        Json ops = Json::array();
        int n = (int)r.range(1, 6);
        // swarm: a run concentrates on a subset of artefact kinds
        std::vector<std::string> kinds;
        for (auto &k : C10_KINDS)
            if (r.chance(0.4))
                kinds.push_back(k);
        if (kinds.empty())
            kinds.push_back(r.pick(C10_KINDS));
        for (int i = 0; i < n; ++i) {
            std::string kind = r.pick(kinds);
            Json op = Json::object();
            op.set("op", "parse");
            op.set("kind", kind);
            std::string t = valid_artefact(r, kind);
            t = mutate_text(r, t, kind, nullptr);
            op.set("text", t);
            bool file = kind.find("_file") != std::string::npos;
            if (file && r.chance(0.2)) {
                Json io = Json::object();
                io.set(r.chance(0.5) ? "short_read" : "eio", (long long)(t.size() ? r.below(t.size() + 1) : 0));
                op.set("io", io);
            }
            if (kind == "jsgf_file" && r.chance(0.5)) {
                // an import target next to the grammar, itself possibly damaged
                std::string imp = "#JSGF V1.0;\ngrammar sub;\npublic <words> = ten | meters | <more>;\n<more> = forward;\n";
                if (r.chance(0.5))
                    imp = mutate_text(r, imp, "jsgf_file", nullptr);
                op.set("import", imp);
            }
            // the other doors into the same readers: the "fsg"/"jsgf" configuration keys at decoder_init, and the
            // buffer-based initialisation sequence of the JavaScript binding
            if ((kind == "fsg_file" || kind == "jsgf_file") && r.chance(0.15))
                op.set("via", "config");
            if ((kind == "fsg_buf" || kind == "jsgf_string") && r.chance(0.2))
                op.set("via", "s3file");
            if (kind == "add_word" && r.chance(0.3)) {
                // a spelling with a byte that only SOME of the library's tokenisers take for white space, then an alignment
                // text that uses it (every pass over that text has to split it the same way)
                const Lang &L = lang("en");
                std::string a = r.pick(L.vocab), b = r.pick(L.vocab);
                std::string sep = r.pick(std::vector<std::string> { "\f", "\v", "\x1c", "\x1f", "\xc2\xa0", "\x85", "\r" });
                std::string w = a + sep + b;
                op.set("text", w + "\t" + r.pick(L.phones) + " " + r.pick(L.phones));
                ops.push(op);
                Json op2 = Json::object();
                op2.set("op", "parse");
                op2.set("kind", "align_text");
                op2.set("text", (r.chance(0.5) ? r.pick(L.vocab) + " " : std::string()) + w + " " + r.pick(L.vocab) + (r.chance(0.5) ? " " + w : std::string()));
                ops.push(op2);
                continue;
            }
            ops.push(op);
        }
        p.set("ops", ops);
        return p;
    }

    // quick tier: the single-field corruptions that sit right at a validation boundary (x-1, x+1, 0, -1) of the English
    // model are enumerated too (a weakened bounds check is the most plausible regression); everything else is sampled
    std::vector<Json> critical;
    void build_critical()
    {
        if (!critical.empty())
            return;
        for (auto &file : MODEL_FILES) {
            std::string b;
            if (!vfs::pristine(file_path("en", file), b))
                continue;
            bool lda = file == "feature_transform";
            for (int64_t off : locate_fields(file, b)) {
                int32_t x = rd32(b, off);
                for (int64_t v : { (int64_t)x - 1, (int64_t)x + 1, (int64_t)0, (int64_t)-1 })
                    if ((int32_t)v != x)
                        critical.push_back(plan_with("en", { fault("en", file, "set_i32", off, v) }, "init", lda));
            }
            int64_t n = (int64_t)b.size();
            std::set<int64_t> cuts = { 0, 1, 2, 3, n - 1, n - 2, n - 4, n - 5 };
            // a file that ends inside a count (1-3 of its 4 bytes present) or right before / after it
            for (int64_t off : locate_fields(file, b))
                for (int64_t dlt = 0; dlt <= 4; ++dlt)
                    cuts.insert(off + dlt);
            // files with a text header: every cut inside the header and the byte-order word after it (a header parser
            // works in passes that must agree on where the header ends)
            size_t eh = b.find("endhdr");
            if (eh != std::string::npos && eh < 4096)
                for (int64_t c = 0; c <= (int64_t)eh + 6 + 1 + 8; ++c)
                    cuts.insert(c);
            for (int64_t c : cuts)
                if (c >= 0 && c < n)
                    critical.push_back(plan_with("en", { fault("en", file, "truncate", c, 0) }, "init", lda));
            // the same edges through the real memory-mapping layer (src/mmio.c over a memory-backed file) under a tight
            // descriptor budget: a refused load must give back what it opened, or the intact model no longer loads
            for (int64_t c : { (int64_t)0, (int64_t)1, n - 1 })
                if (c >= 0 && c < n)
                    critical.push_back(with_store(plan_with("en", { fault("en", file, "truncate", c, 0) }, c == 1 ? "create_reinit" : "init", lda)));
            critical.push_back(with_store(plan_with("en", { fault("en", file, "enoent", 0, 0) }, "init", lda)));
        }
    }

    Json generate_indexed(const std::string &prop, uint64_t seed, int tier, int64_t index) override
    {
        if (prop == "C10")
            return generate_c10(seed);
        if (tier && index >= 0 && index < (int64_t)enumerated.size())
            return enumerated[(size_t)index];
        if (!tier && index >= 0 && index < (int64_t)critical.size())
            return critical[(size_t)index];
        Rng r(seed);
        std::string model = r.chance(0.6) ? "en" : "fr";
        int nf = (int)r.weighted({ 0, 70, 20, 10 });
        std::vector<Json> faults;
        bool lda = false;
        for (int i = 0; i < nf; ++i) {
            std::string file;
            faults.push_back(random_fault(r, model, &file));
            if (file == "feature_transform")
                lda = true;
        }
        static const std::vector<std::string> vias = { "init", "init", "init", "create_reinit", "s3file" };
        std::string via = r.pick(vias);
        if (lda)
            via = "init";
        if (via != "s3file" && r.chance(0.2))
            return with_store(plan_with(model, faults, via, lda));
        return plan_with(model, faults, via, lda);
    }

    // ---- execution
    struct Buf {
        char *p = nullptr;
        size_t n = 0;
    };
    static s3file_t *open_mem(const std::string &path, std::vector<Buf> &keep)
    {
        std::string b;
        if (!vfs::pristine(path, b))
            return nullptr;
        if (!vfs::apply(path, b, false, nullptr, nullptr))
            return nullptr; // missing file: the binding gets no buffer
        Buf k;
        k.n = b.size();
        k.p = (char *)malloc(k.n ? k.n : 1);
        memcpy(k.p, b.data(), k.n);
        keep.push_back(k);
        return s3file_init(k.p, k.n);
    }

    // the sequence js/api.js performs, over caller-owned exact-size buffers
    static decoder_t *init_via_s3file(const std::string &model, std::vector<Buf> &keep)
    {
        config_t *c = model_config(model, false);
        decoder_t *d = decoder_create(c);
        if (!d)
            return nullptr;
        auto fail = [&]() {
            decoder_free(d);
            return (decoder_t *)nullptr;
        };
        if (!decoder_init_fe(d) || !decoder_init_feat_s3file(d, NULL) || !decoder_init_acmod_pre(d))
            return fail();
        {
            s3file_t *s = open_mem(file_path(model, "mdef"), keep);
            if (!s)
                return fail();
            bin_mdef_t *m = bin_mdef_read_s3file(s, 0);
            s3file_free(s);
            if (!m)
                return fail();
            d->acmod->mdef = m;
        }
        {
            s3file_t *s = open_mem(file_path(model, "transition_matrices"), keep);
            if (!s)
                return fail();
            tmat_t *t = tmat_init_s3file(s, d->lmath, config_float(d->config, "tmatfloor"));
            s3file_free(s);
            if (!t)
                return fail();
            d->acmod->tmat = t;
        }
        {
            s3file_t *means = open_mem(file_path(model, "means"), keep);
            s3file_t *vars = open_mem(file_path(model, "variances"), keep);
            s3file_t *sendump = open_mem(file_path(model, "sendump"), keep);
            bool ok = means && vars && sendump;
            if (ok) {
                acmod_t *acmod = d->acmod;
                if ((acmod->mgau = ptm_mgau_init_s3file(acmod, means, vars, NULL, sendump)) == NULL) {
                    s3file_rewind(means);
                    s3file_rewind(vars);
                    s3file_rewind(sendump);
                    if ((acmod->mgau = s2_semi_mgau_init_s3file(acmod, means, vars, NULL, sendump)) == NULL) {
                        s3file_rewind(means);
                        s3file_rewind(vars);
                        acmod->mgau = ms_mgau_init_s3file(acmod, means, vars, NULL, NULL);
                    }
                }
                ok = acmod->mgau != NULL;
            }
            s3file_free(means);
            s3file_free(vars);
            s3file_free(sendump);
            if (!ok)
                return fail();
        }
        if (decoder_init_acmod_post(d) < 0)
            return fail();
        {
            s3file_t *dict = open_mem(lang(model).dict_path, keep);
            s3file_t *fdict = open_mem(model_dir(model) + "/noisedict.txt", keep);
            dict_t *dd = decoder_init_dict_s3file(d, dict, fdict);
            s3file_free(dict);
            s3file_free(fdict);
            if (!dd)
                return fail();
        }
        return d;
    }

    // activate a grammar the library returned, decode 0.3 s with it
    void use_grammar(decoder_t *d, Outcome &out)
    {
        const auto &clip = audio::recording("goforward");
        size_t n = std::min<size_t>(clip.size(), 4800);
        if (decoder_start_utt(d) < 0)
            return;
        int16_t *heap = (int16_t *)malloc(sizeof(int16_t) * n);
        memcpy(heap, clip.data(), sizeof(int16_t) * n);
        decoder_process_int16(d, heap, n, 0, 0);
        free(heap);
        decoder_end_utt(d);
        Rec r = capture(d);
        out.events.str(r.to_json(false).dump());
        out.probes["c10.returned_grammar_used"]++;
    }

    void execute_c10(const Json &plan, const Ctx &ctx)
    {
        Outcome &out = *ctx.out;
        decoder_t *d = c10_dec;
        const auto &ops = plan["ops"].a;
        int returned = 0, damaged = 0;
        for (size_t k = 0; k < ops.size(); ++k) {
            const Json &op = ops[k];
            ctx.at((int)k);
            std::string kind = op.gets("kind");
            const std::string &text = op.gets("text");
            out.trace.str(kind);
            ctx.set_note(kind);
            vfs::clear_faults();
            damaged++;
            std::string path = "/vfs/c10/artefact";
            if (kind == "jsgf_file")
                path = "/vfs/c10/top.gram";
            bool file = kind.find("_file") != std::string::npos;
            if (file) {
                vfs::set_image(path, text);
                if (op.has("import"))
                    vfs::set_image("/vfs/c10/sub.gram", op["import"].s);
                else
                    vfs::remove_image("/vfs/c10/sub.gram");
                if (op.has("io")) {
                    vfs::Fault f;
                    f.target = path;
                    f.kind = op["io"].has("eio") ? "eio" : "short_read";
                    f.off = op["io"].geti(f.kind);
                    vfs::add_fault(f);
                }
            }
            int rv = -99;
            const std::string via = op.gets("via");
            if (via == "config" && (kind == "fsg_file" || kind == "jsgf_file")) {
                config_t *c = make_config("en");
                config_set_str(c, kind == "fsg_file" ? "fsg" : "jsgf", path.c_str());
                decoder_t *d2 = decoder_init(c); // consumes c
                rv = d2 ? 0 : -1;
                if (d2) {
                    use_grammar(d2, out);
                    decoder_free(d2);
                }
                out.probes["c10.via_config_key"]++;
            } else if (via == "s3file" && (kind == "fsg_buf" || kind == "jsgf_string")) {
                char *buf = (char *)malloc(text.size() + 1); // the binding hands over NUL-terminated text
                memcpy(buf, text.data(), text.size());
                buf[text.size()] = 0;
                s3file_t *f = s3file_init(buf, text.size());
                rv = kind == "fsg_buf" ? decoder_init_grammar_s3file(d, f, NULL) : decoder_init_grammar_s3file(d, NULL, f);
                s3file_free(f);
                free(buf);
                if (rv == 0)
                    use_grammar(d, out);
                out.probes["c10.via_s3file"]++;
            } else if (kind == "jsgf_string") {
                rv = decoder_set_jsgf_string(d, text.c_str());
                if (rv == 0)
                    use_grammar(d, out);
            } else if (kind == "jsgf_file") {
                rv = decoder_set_jsgf_file(d, path.c_str());
                if (rv == 0)
                    use_grammar(d, out);
            } else if (kind == "fsg_file") {
                fsg_model_t *fsg = fsg_model_readfile(path.c_str(), d->lmath, 6.5f);
                rv = fsg ? 0 : -1;
                if (fsg) {
                    if (decoder_set_fsg(d, fsg) == 0) // consumes fsg either way
                        use_grammar(d, out);
                    else
                        rv = -2;
                }
            } else if (kind == "fsg_buf") {
                char *buf = (char *)malloc(text.size() ? text.size() : 1);
                memcpy(buf, text.data(), text.size());
                s3file_t *f = s3file_init(buf, text.size());
                fsg_model_t *fsg = fsg_model_read_s3file(f, d->lmath, 6.5f);
                s3file_free(f);
                free(buf);
                rv = fsg ? 0 : -1;
                if (fsg) {
                    if (r_chance_use(k))
                        fsg_model_free(fsg); // returned object freed unused
                    else if (decoder_set_fsg(d, fsg) == 0)
                        use_grammar(d, out);
                    else
                        rv = -2;
                }
            } else if (kind == "dict_file" || kind == "fdict_file") {
                config_t *c = config_init(NULL);
                config_set_str(c, kind == "dict_file" ? "dict" : "fdict", path.c_str());
                if (kind == "fdict_file")
                    config_set_str(c, "dict", lang("en").dict_path.c_str());
                dict_t *dd = dict_init(c, d->acmod->mdef);
                rv = dd ? 0 : -1;
                if (dd) {
                    for (const char *w : { "go", "<sil>", "forward(2)", "", "zzz" })
                        out.events.i64(dict_wordid(dd, w));
                    for (int32 w = 0; w < dict_size(dd) && w < 50; ++w) {
                        out.events.i64(dict_pronlen(dd, w));
                        out.events.i64(dict_basewid(dd, w));
                        out.events.i64(dict_filler_word(dd, w));
                    }
                    dict_free(dd);
                    out.probes["c10.returned_dict_used"]++;
                }
                config_free(c);
            } else if (kind == "json_string" || kind == "featparams_file") {
                config_t *c = nullptr;
                if (kind == "json_string")
                    c = config_parse_json(NULL, text.c_str());
                else {
                    c = config_init(NULL);
                    config_set_str(c, "featparams", path.c_str());
                    config_expand(c);
                }
                rv = c ? 0 : -1;
                if (c) {
                    // use it: serialise, then build the front end and feature module from it
                    const char *js = config_serialize_json(c);
                    out.events.i64(js ? (int64_t)strlen(js) : -1);
                    fe_t *fe = fe_init(c);
                    feat_t *fcb = feat_init(c);
                    out.events.i64(fe != nullptr);
                    out.events.i64(fcb != nullptr);
                    fe_free(fe);
                    feat_free(fcb);
                    config_free(c);
                    out.probes["c10.returned_config_used"]++;
                }
            } else if (kind == "align_text") {
                rv = decoder_set_align_text(d, text.c_str());
                if (rv == 0)
                    use_grammar(d, out);
            } else if (kind == "add_word") {
                size_t tab = text.find('\t');
                std::string w = text.substr(0, tab), ph = tab == std::string::npos ? "" : text.substr(tab + 1);
                rv = decoder_add_word(d, w.c_str(), ph.c_str(), (int)(k & 1));
                char *p2 = decoder_lookup_word(d, w.c_str());
                out.events.str(p2 ? p2 : "(null)");
                ckd_free(p2);
            } else if (kind == "cmn_text") {
                rv = decoder_set_cmn(d, text.c_str());
                const char *c = decoder_get_cmn(d, 0);
                out.events.str(c ? c : "(null)");
            }
            out.checks++;
            out.events.i64(rv);
            out.trace.i64(rv >= 0);
            out.probes[rv >= 0 ? "c10.accepted." + kind : "c10.refused." + kind]++;
            returned++;
            for (auto &kv : vfs::fired())
                out.faults[kv.first] += kv.second;
            vfs::fired().clear();
            out.faults["artefact." + kind]++;
        }
        ctx.at((int)ops.size());
        vfs::clear_faults();
        // the decoder must still be usable and freeable after all that
        decoder_set_align_text(d, "go forward ten meters");
        use_grammar(d, out);
        decoder_free(d);
        c10_dec = nullptr;
        out.nontrivial = returned > 0 && damaged > 0;
        out.sim_seconds = 0.3 * (double)(out.probes["c10.returned_grammar_used"]);
    }
    static bool r_chance_use(size_t k) { return (k % 3) == 2; }

    void execute(const Json &plan, const Ctx &ctx) override
    {
        if (plan.gets("profile") == "C10") {
            execute_c10(plan, ctx);
            return;
        }
        Outcome &out = *ctx.out;
        std::string model = plan.gets("model", "en");
        std::string via = plan.gets("via", "init");
        bool lda = plan.getb("lda");
        vfs::clear_faults();
        vfs::fired().clear();
        decoder_t *d = nullptr;
        std::vector<Buf> keep;
        bool inited = false;
        const auto &ops = plan["ops"].a;
        // "with memory mapping": the faulted images go through the real src/mmio.c, the refused load is repeated, and the
        // process may open only 10 descriptors more than it holds now -- what a refused load keeps open is then missing
        // when the intact model is loaded afterwards (the property's last clause), with no oracle of our own added
        const bool real_store = plan.gets("store") == "mmap" && via != "s3file";
        const int repeat = real_store ? (int)std::max<int64_t>(1, plan.geti("repeat", 1)) : 1;
        struct rlimit saved_lim;
        bool lim_set = false;
        vfs::real_store(real_store);
        if (real_store) {
            int hi = highest_fd();
            if (hi >= 0 && getrlimit(RLIMIT_NOFILE, &saved_lim) == 0) {
                struct rlimit l = saved_lim;
                l.rlim_cur = std::min<rlim_t>(saved_lim.rlim_cur, (rlim_t)hi + 1 + 10);
                lim_set = setrlimit(RLIMIT_NOFILE, &l) == 0;
            }
            out.probes["load.real_mmap_layer"]++;
        }
        const int64_t fds_before = real_store ? count_fds() : 0;
        for (size_t k = 0; k < ops.size(); ++k) {
            const Json &op = ops[k];
            ctx.at((int)k);
            const std::string &o = op.gets("op");
            out.trace.str(o);
            if (o == "fault") {
                vfs::Fault f;
                f.target = file_path(op.gets("model", model), op.gets("file"));
                f.kind = op.gets("kind");
                f.off = op.geti("off");
                f.val = op.geti("val");
                f.len = op.geti("len");
                vfs::add_fault(f);
                out.trace.str(op.gets("file") + "/" + f.kind);
            } else if (o == "init") {
                inited = true;
                ctx.set_note("init");
                for (int rep = 1; rep < repeat; ++rep) { // the same (refused) load, again and again
                    decoder_t *dr = via == "create_reinit" ? decoder_create(model_config(model, lda)) : decoder_init(model_config(model, lda));
                    bool loaded = dr != nullptr;
                    if (dr && via == "create_reinit")
                        loaded = decoder_reinit(dr, NULL) >= 0;
                    decoder_free(dr);
                    if (loaded)
                        break; // the damage landed in payload: not a refused load, nothing to repeat
                }
                if (via == "s3file")
                    d = init_via_s3file(model, keep);
                else if (via == "create_reinit") {
                    d = decoder_create(model_config(model, lda));
                    if (d && decoder_reinit(d, NULL) < 0) {
                        decoder_free(d);
                        d = nullptr;
                    }
                } else
                    d = decoder_init(model_config(model, lda));
                out.events.i64(d != nullptr);
                out.checks++;
                out.probes[d ? "load.init_succeeded_despite_fault" : "load.init_reported_failure"]++;
                out.trace.i64(d != nullptr);
            } else if (o == "use") {
                if (d) {
                    // the property: ends by reporting failure, OR (corruption landed in payload) a usable object
                    ctx.set_note("use");
                    bool ok = use(d, model, 8000, nullptr);
                    out.events.i64(ok);
                    decoder_free(d);
                    d = nullptr;
                    out.probes["load.loaded_model_used_and_freed"]++;
                }
            } else if (o == "clear") {
                if (d) {
                    decoder_free(d);
                    d = nullptr;
                }
                for (auto &b : keep)
                    free(b.p);
                keep.clear();
                for (auto &kv : vfs::fired())
                    out.faults[kv.first] += kv.second;
                vfs::clear_faults();
            } else if (o == "canary") {
                if (!inited)
                    continue;
                ctx.set_note("canary");
                Json rec;
                bool ok = canary(model, rec);
                out.checks++;
                if (!ok)
                    out.violate("C17.intact_model_loads_afterwards", "mismatch", "canary_init", "after the failed load the intact model no longer initialises or decodes", (int)k);
                else if (rec.dump() != canary_ref[model].dump())
                    out.violate("C17.intact_model_loads_afterwards", "mismatch", "canary_result",
                                "after the failed load the intact model decodes the canary utterance differently: " + rec.dump().substr(0, 200) + " vs " + canary_ref[model].dump().substr(0, 200), (int)k);
                out.events.str(rec.dump());
            }
        }
        ctx.at((int)ops.size());
        if (d)
            decoder_free(d);
        for (auto &b : keep)
            free(b.p);
        for (auto &kv : vfs::fired())
            out.faults[kv.first] += kv.second;
        vfs::clear_faults();
        if (real_store) {
            out.probes["load.real_mmap_opens"] += vfs::real_maps();
            if (count_fds() != fds_before)
                out.probes["load.descriptor_count_changed"]++; // reported as reach, decided through the canary above
            if (lim_set)
                setrlimit(RLIMIT_NOFILE, &saved_lim);
            vfs::real_store(false);
        }
        int64_t fired = 0;
        for (auto &kv : out.faults)
            fired += kv.second;
        out.nontrivial = fired > 0 && inited;
        out.sim_seconds = 0.5 + 1.9;
    }

    // class trigger: "<file>/<fault kind>" of the single fault, or of the file being opened when several are attached
    std::string crash_trigger(const Json &plan, int op, const std::string &note) const override
    {
        if (plan.gets("profile") == "C10") {
            // the artefact kind (where a hang was looping is the class's site, see kernel.cc hang_site)
            std::string t = note.empty() ? "-" : note;
            (void)op;
            return t;
        }
        (void)op;
        std::vector<const Json *> faults;
        for (auto &o : plan["ops"].a)
            if (o.gets("op") == "fault")
                faults.push_back(&o);
        std::string phase = note.empty() ? "init" : note;
        if (faults.size() == 1)
            return faults[0]->gets("file") + "/" + faults[0]->gets("kind") + "@" + phase;
        if (faults.empty())
            return "nofault@" + phase;
        return "multi@" + phase;
    }

    std::vector<Json> simplify(const Json &plan) const override
    {
        std::vector<Json> c;
        const auto &ops = plan["ops"].a;
        if (plan.gets("profile") == "C10") {
            // shorten the artefact text: halves, then chunks
            for (size_t n = 0; n < ops.size(); ++n) {
                const std::string &t = ops[n].gets("text");
                auto with_text = [&](const std::string &nt) {
                    Json p = plan;
                    Json a = Json::array();
                    for (size_t m = 0; m < ops.size(); ++m) {
                        Json o = ops[m];
                        if (m == n)
                            o.set("text", nt);
                        a.push(o);
                    }
                    p.set("ops", a);
                    return p;
                };
                if (t.size() > 1) {
                    c.push_back(with_text(t.substr(0, t.size() / 2)));
                    c.push_back(with_text(t.substr(t.size() / 2)));
                    size_t q = t.size() / 4;
                    if (q > 0) {
                        c.push_back(with_text(t.substr(0, q) + t.substr(2 * q)));
                        c.push_back(with_text(t.substr(0, 2 * q) + t.substr(3 * q)));
                        c.push_back(with_text(t.substr(0, t.size() - 1)));
                    }
                }
                if (ops[n].has("io") || ops[n].has("import")) {
                    Json p = plan;
                    Json a = Json::array();
                    for (size_t m = 0; m < ops.size(); ++m) {
                        Json o = ops[m];
                        if (m == n) {
                            o.erase("io");
                            o.erase("import");
                        }
                        a.push(o);
                    }
                    p.set("ops", a);
                    c.push_back(p);
                }
            }
            return c;
        }
        if (plan.gets("via") != "init") {
            Json p = plan;
            p.set("via", "init");
            c.push_back(p);
        }
        if (plan.gets("model") == "fr") {
            Json p = plan;
            p.set("model", "en");
            Json a = Json::array();
            for (auto &o : ops) {
                Json o2 = o;
                if (o.gets("op") == "fault")
                    o2.set("model", "en");
                a.push(o2);
            }
            p.set("ops", a);
            c.push_back(p);
        }
        return c;
    }
};

static LoadWorld g_load;
struct Reg {
    Reg() { register_world(&g_load); }
} g_reg;

} // namespace
} // namespace sim
