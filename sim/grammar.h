// Grammar generator with an independent reference automaton (DESIGN.md section 5).
// The automaton is built from the generator's own structure, never from the library's compiled fsg_model_t.
#pragma once
#include "kernel.h"

namespace sim {
namespace grammar {

struct Nfa {
    int n = 0, start = 0;
    std::vector<int> finals;
    struct Arc {
        int from, to;
        std::string label; // "" = epsilon
    };
    std::vector<Arc> arcs;
    int add_state() { return n++; }
    void add(int from, int to, const std::string &label) { arcs.push_back(Arc { from, to, label }); }
    // is `seq` the label sequence of a path from the start state (prefix=true), or of one ending in a final state?
    bool accepts(const std::vector<std::string> &seq, bool prefix) const;
    bool accepts_empty() const { return accepts({}, false); }
    // a shortest accepted sentence (for choosing matching audio), empty if none
    std::vector<std::string> some_sentence(Rng &r, int maxlen) const;
    Json to_json() const;
    static Nfa from_json(const Json &j);
};

// A grammar as it goes into a plan: {"kind": "fsg"|"jsgf"|"align", "text": ..., "nfa": {...}, "feat": [...]}
void set_rhyme_groups(const std::vector<std::vector<std::string>> &groups);
void set_homophone_groups(const std::vector<std::vector<std::string>> &groups); // spellings with identical pronunciations
void set_convergence_bias(bool on); // C01: more grammars in which rhyming word arcs from different states converge
Json gen_fsg(Rng &r, const std::vector<std::string> &vocab);
Json gen_jsgf(Rng &r, const std::vector<std::string> &vocab);
Json gen_align(Rng &r, const std::vector<std::string> &vocab, const std::vector<std::string> &prefer);
Json fixed(const std::string &name); // repository grammars with hand-written automata: goforward_fsg, goforward_jsgf
Json gen_any(Rng &r, const std::vector<std::string> &vocab, const std::vector<std::string> &prefer);

} // namespace grammar
} // namespace sim
