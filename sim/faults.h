// Fault layers behind link-time seams: simulated file store (mmio_file_*, fopen) and scripted VAD.
#pragma once
#include "kernel.h"

namespace sim {
namespace vfs {

struct Fault {
    std::string target; // path suffix the fault applies to, e.g. "en-us/mdef"
    std::string kind;   // enoent | truncate | flip_bit | set_byte | set_i32 | zero_block | dup_block | append | replace | short_read | eio
    int64_t off = 0, val = 0, len = 0;
    std::string data; // for replace/append
    bool fopen_only = false;
};

void real_store(bool on);                                    // on: faulted images are handed to the REAL mmio layer (memfd + src/mmio.c) instead of heap copies
int64_t real_maps();                                         // how many opens went through the real layer
void activate(bool on);                                      // off: every call passes through to the real function
void set_image(const std::string &path, const std::string &bytes); // virtual file (exists only in the store)
void remove_image(const std::string &path);
bool pristine(const std::string &path, std::string &out);    // cached real content (read once) or virtual image
void preload(const std::string &path);                       // cache a real file now (template time)
void add_fault(const Fault &f);
void clear_faults();
std::map<std::string, int64_t> &fired();                     // fault kind -> times actually applied
const std::string &last_opened();                            // path of the most recent open through either seam
int64_t opens();
void on_open(void (*cb)(const char *path));                  // observer (publishes the note in the shared page)
// apply the faults registered for `path` to `bytes`; returns false if the open must fail
bool apply(const std::string &path, std::string &bytes, bool via_fopen, int64_t *short_read_at, int64_t *eio_at);

} // namespace vfs

namespace vadscript {
void set(const std::vector<int> &decisions); // consumed one per vad_classify call; empty = pass through
void clear();
void record(bool on);                        // record what the real classifier returned (pass-through runs)
const std::vector<int> &recorded();
int64_t consumed();
} // namespace vadscript

} // namespace sim
