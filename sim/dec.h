// DEC world shared pieces: template decoders, small dictionaries, result records.
#pragma once
#include "audio.h"
#include "faults.h"
#include "grammar.h"
#include "kernel.h"

extern "C" {
#include <soundswallower/acmod.h>
#include <soundswallower/alignment.h>
#include <soundswallower/bin_mdef.h>
#include <soundswallower/configuration.h>
#include <soundswallower/decoder.h>
#include <soundswallower/dict.h>
#include <soundswallower/err.h>
#include <soundswallower/fsg_model.h>
#include <soundswallower/fsg_search.h>
#include <soundswallower/lattice.h>
#include <soundswallower/s3file.h>
#include <soundswallower/search_module.h>
}

namespace sim {
namespace dec {

// ---- template (built once per worker process, inherited by every forked run)
struct Lang {
    std::string name;            // "en" | "fr"
    std::string hmm;             // model directory
    std::string dict_path;       // virtual small dictionary
    std::string dict_text;
    std::vector<std::string> vocab;      // base spellings of real words in the small dictionary
    std::vector<std::string> one_phone;  // one-phone words
    std::map<std::string, std::vector<std::string>> prons; // spelling (incl. "(2)") -> phones
    std::vector<std::string> phones;     // CI phone names of the model
};

void build_languages();                 // small dictionaries -> vfs images
const Lang &lang(const std::string &name);
config_t *make_config(const std::string &tmpl); // tmpl: en | enc | fr | enfull
decoder_t *make_decoder(const std::string &tmpl);
std::string lang_of(const std::string &tmpl);
std::vector<std::string> prefer_words(const std::string &recording); // words spoken in a recording, if known

// ---- result record: what an observer reads in one instant
struct SegR {
    std::string word;
    int sf = 0, ef = 0;
    int32 ascr = 0, lscr = 0, prob = 0;
};
struct AlEnt {
    std::string name;
    int start = 0, dur = 0, score = 0;
    int nchild = 0; // number of children (phones of a word, states of a phone)
};
struct Rec {
    bool hyp_null = true;
    std::string hyp;
    int32 score = 0;
    bool score_set = false;
    bool seg_null = true;
    std::vector<SegR> segs;
    int n_frames = 0;
    // alignment (captured on request)
    bool align_asked = false, align_null = true;
    std::vector<AlEnt> words, phones, states;
    Json to_json(bool with_align) const;
};

// ---- lattice snapshot (canonical: nodes sorted by (sf, word, fef, lef, id), links by (from, to, ef))
struct LatNode {
    std::string word; // dictionary spelling
    int sf = 0, fef = 0, lef = 0;
    int node_id = 0;
    std::vector<int> exits, entries; // link indices
};
struct LatLink {
    int from = 0, to = 0, ef = 0;
    int32 ascr = 0;
    const void *ptr = nullptr; // the latlink_t (valid only while the lattice is current)
};
struct Lat {
    bool null = true;
    int n_frames = 0, start = -1, end = -1;
    std::vector<LatNode> nodes;
    std::vector<LatLink> links;
    std::string canon() const; // text form for comparison and digests
};
Lat capture_lattice(lattice_t *dag);

static const int32 SCORE_SENTINEL = 0x7abcdef1;
Rec capture(decoder_t *d);              // hyp + full segmentation + n_frames
void capture_alignment(decoder_t *d, Rec &rec);
std::string base_of(const std::string &w); // strip "(n)"

} // namespace dec
} // namespace sim
