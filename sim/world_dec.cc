// DEC world: whole decoders from a per-worker template, logical client tasks (producer / observer / mutator)
// interleaved by the plan, reference results from a pristine sibling process.  DESIGN.md sections 5 and 6.
#include "dec.h"
#include <sys/time.h>
#include <algorithm>
#include <cmath>
#include <sys/wait.h>
#include <unistd.h>
#if defined(__has_feature)
#if __has_feature(address_sanitizer)
#include <sanitizer/allocator_interface.h>
#define HAVE_ASAN_IFACE 1
#endif
#endif
#ifndef HAVE_ASAN_IFACE
static inline size_t __sanitizer_get_allocated_size(const volatile void *) { return 0; }
#endif

namespace sim {
namespace {

using namespace dec;
using grammar::Nfa;

static const int MAX_CMP_SAMPLES = 46000; // <= 290 frames at S=410/H=160: inside the CMN update window (C07's own restriction)

static int64_t frames_for(int64_t N, int S, int H)
{
    int64_t full = N >= S ? 1 + (N - S) / H : 0;
    return full + (N - full * H > 0 ? 1 : 0);
}

// ---------------------------------------------------------------- template
struct Template {
    std::map<std::string, std::vector<decoder_t *>> pool; // tmpl -> instances
    std::map<std::string, std::string> cmn0;              // tmpl -> initial CMN text
    bool built = false;
} g_t;

static void build_template(const std::string &prop)
{
    if (g_t.built)
        return;
    vfs::activate(true);
    audio::load_corpus();
    build_languages();
    err_set_loglevel(ERR_ERROR);
    {
        std::map<std::string, std::vector<std::string>> by_tail;
        for (const char *lg : { "en", "fr" }) {
            const Lang &L = lang(lg);
            for (auto &w : L.vocab) {
                auto it = L.prons.find(w);
                if (it == L.prons.end() || it->second.size() < 2)
                    continue;
                by_tail[std::string(lg) + ":" + it->second[it->second.size() - 2] + " " + it->second.back()].push_back(w);
            }
        }
        std::vector<std::vector<std::string>> groups;
        for (auto &kv : by_tail)
            if (kv.second.size() >= 2)
                groups.push_back(kv.second);
        grammar::set_rhyme_groups(groups);
        // homophones: base spellings with identical pronunciations
        std::map<std::string, std::vector<std::string>> by_pron;
        for (const char *lg : { "en", "fr" }) {
            const Lang &L = lang(lg);
            for (auto &w : L.vocab) {
                auto it = L.prons.find(w);
                if (it == L.prons.end() || it->second.empty())
                    continue;
                std::string key = std::string(lg) + ":";
                for (auto &ph : it->second)
                    key += ph + " ";
                by_pron[key].push_back(w);
            }
        }
        std::vector<std::vector<std::string>> hom;
        for (auto &kv : by_pron)
            if (kv.second.size() >= 2)
                hom.push_back(kv.second);
        grammar::set_homophone_groups(hom);
    }
    std::vector<std::pair<std::string, int>> specs = { { "en", 2 }, { "enc", 1 }, { "fr", 1 }, { "enx", 1 } };
    if (prop == "C18")
        specs.push_back({ "env", 1 }); // variance normalisation on (a front-end configuration the models do not use)
    for (auto &spec : specs)
        for (int i = 0; i < spec.second; ++i) {
            decoder_t *d = make_decoder(spec.first);
            if (!d) {
                fprintf(stderr, "HARNESS-FAULT: template decoder %s failed to initialise\n", spec.first.c_str());
                exit(2);
            }
            g_t.pool[spec.first].push_back(d);
            g_t.cmn0[spec.first] = decoder_get_cmn(d, 0);
        }
    g_t.built = true;
}

// ---------------------------------------------------------------- executor
struct DecState {
    decoder_t *d = nullptr;
    std::string tmpl;
    bool has_grammar = false;
    Nfa nfa;
    std::string gkind;
    // current utterance
    bool in_utt = false, probe = false, ended_once = false;
    std::vector<int16_t> clip;
    size_t fed = 0;
    bool f32 = false;
    double fgain = 1.0; // C18: float input scaled beyond +-1.0
    int64_t searched = 0; // sum of process return values in this utterance
    int nfr_start = 0;
    int probe_id = -1;
    int n_queries = 0, n_calls = 0;
    lattice_t *kept_dag = nullptr; // C11: our own reference to the last lattice handed out
    int kept_frames = 0, kept_utt = -1, utt_serial = 0;
    bool probe_comparable = false;
    bool align_mid_utt = false; // an alignment was requested before the end of the current utterance
    bool sched_noncanonical = false;
    // C16: reference map spelling -> pronunciation for every word touched by an add or lookup, alternates per base
    std::map<std::string, std::string> dict_model;             // spellings known to be present -> "PH PH"
    std::map<std::string, std::set<std::string>> alt_model;    // base -> spellings of its numbered alternates
    std::map<std::string, std::pair<int, std::string>> old_words; // sampled pre-existing words: id, pronunciation
    bool dict_sampled = false;
    bool scores_commensurable = false; // the active search was built with wip = pip = 1
    int align_failed_at_frame = -1;
};

struct Exec {
    const Ctx &ctx;
    Outcome &out;
    const Json &plan;
    std::string profile;
    std::vector<DecState> ds;
    std::map<int, Json> reference; // probe id -> canonical record
    bool quiet = false;            // reference mode: no oracles, just produce the probe record
    Json probe_record;             // reference mode result
    int S = 410, H = 160;

    Exec(const Ctx &c, const Json &p) : ctx(c), out(*c.out), plan(p) { profile = p.gets("profile", c.property); }

    bool armed(const char *prop) const { return !quiet && ctx.property == prop; }
    void viol(const char *prop, const char *inv, const std::string &trigger, const std::string &msg, int opi)
    {
        if (quiet)
            return;
        if (ctx.property == prop)
            out.violate(std::string(prop) + "." + inv, "mismatch", trigger, msg, opi);
        else
            out.other[std::string(prop) + "." + inv]++;
    }

    bool is_filler(DecState &s, const std::string &w)
    {
        s3wid_t wid = dict_wordid(s.d->dict, w.c_str());
        if (wid == BAD_S3WID)
            return w == "<s>" || w == "</s>" || w == "<sil>";
        return dict_filler_word(s.d->dict, wid) != 0;
    }

    // ---- invariants over one record (C03, C01)
    void check_record(DecState &s, const Rec &r, bool final, int opi)
    {
        out.checks++;
        std::vector<std::string> words;
        // C03: tiling
        int prev_ef = -1;
        bool first_real = true;
        int64_t sum = 0;
        for (size_t i = 0; i < r.segs.size(); ++i) {
            const SegR &g = r.segs[i];
            sum += (int64_t)g.ascr + g.lscr;
            if (g.word == "(NULL)") {
                out.probes["dec.null_segment"]++;
                if (g.sf != g.ef || g.ef != prev_ef)
                    viol("C03", "null_marker", "null_segment", "null segment " + std::to_string(i) + " spans [" + std::to_string(g.sf) + "," + std::to_string(g.ef) +
                             "], previous time-consuming segment ended at " + std::to_string(prev_ef), opi);
                continue;
            }
            if (first_real && g.sf != 0)
                viol("C03", "tiling", "first_sf", "first segment '" + g.word + "' starts at frame " + std::to_string(g.sf), opi);
            if (!first_real && g.sf != prev_ef + 1)
                viol("C03", "tiling", "gap_or_overlap", "segment " + std::to_string(i) + " '" + g.word + "' starts at " + std::to_string(g.sf) + " after previous end " +
                         std::to_string(prev_ef), opi);
            if (g.ef < g.sf)
                viol("C03", "tiling", "empty_segment", "segment " + std::to_string(i) + " '" + g.word + "' spans [" + std::to_string(g.sf) + "," + std::to_string(g.ef) + "]", opi);
            first_real = false;
            prev_ef = g.ef;
            if (!is_filler(s, g.word))
                words.push_back(base_of(g.word));
            else
                out.probes["dec.filler_segment"]++;
        }
        if (!r.segs.empty()) {
            if (prev_ef > s.searched - 1)
                viol("C03", "extent", "past_searched", "last segment ends at frame " + std::to_string(prev_ef) + " but only " + std::to_string(s.searched) + " frames were searched", opi);
            if (!r.score_set)
                viol("C03", "score_sum", "no_score", "segments exist but decoder_hyp reported no score", opi);
            else if (sum != (int64_t)r.score)
                viol("C03", "score_sum", "sum", "sum of segment scores " + std::to_string(sum) + " != path score " + std::to_string(r.score), opi);
        }
        // C03: hypothesis string = base forms of the non-filler segment words
        std::string joined;
        for (size_t i = 0; i < words.size(); ++i)
            joined += (i ? " " : "") + words[i];
        if (r.seg_null) {
            if (!r.hyp_null)
                viol("C03", "hyp_vs_seg", "hyp_without_segs", "hypothesis '" + r.hyp + "' but no segmentation", opi);
        } else if (words.empty()) {
            if (!r.hyp_null)
                viol("C03", "hyp_vs_seg", "hyp_without_words", "hypothesis '" + r.hyp + "' but the segmentation has no real word", opi);
            out.probes["dec.result_without_words"]++;
        } else if (r.hyp_null || r.hyp != joined)
            viol("C03", "hyp_vs_seg", "differs", "hypothesis '" + (r.hyp_null ? std::string("(null)") : r.hyp) + "' != segment words '" + joined + "'", opi);
        // C01: sentence / prefix of the active grammar
        if (s.has_grammar && !r.seg_null) {
            bool ok = s.nfa.accepts(words, !final);
            if (!ok)
                viol("C01", final ? "final_sentence" : "partial_prefix", s.gkind, std::string(final ? "final" : "partial") + " result '" + joined + "' is not " +
                         (final ? "a sentence" : "a path prefix") + " of the active " + s.gkind + " grammar", opi);
            if (final && words.empty())
                out.probes["dec.final_empty_sentence"]++;
        }
        if (final && r.seg_null) {
            out.probes["dec.final_no_hypothesis"]++;
            if (!r.hyp_null)
                viol("C01", "no_hyp_consistency", "hyp_without_seg", "final: hypothesis returned without segmentation", opi);
        }
        if (!r.seg_null)
            out.probes[final ? "dec.final_result" : "dec.partial_result"]++;
    }

    // ---- C04: the alignment is a consistent words > phones > states hierarchy
    void check_alignment(DecState &s, const Rec &r, int opi)
    {
        if (!r.align_asked || r.align_null)
            return;
        out.checks++;
        auto bad = [&](const char *inv, const std::string &trig, const std::string &msg) { viol("C04", inv, trig, msg, opi); };
        // words = dictionary words of the segmentation read at the same instant
        std::vector<const SegR *> dw;
        for (auto &g : r.segs)
            if (dict_wordid(s.d->dict, g.word.c_str()) != BAD_S3WID)
                dw.push_back(&g);
        if (dw.size() != r.words.size()) {
            bad("words_vs_segmentation", "count", "alignment has " + std::to_string(r.words.size()) + " words, the segmentation " + std::to_string(dw.size()) + " dictionary words");
            return;
        }
        const int n_emit = bin_mdef_n_emit_state(s.d->acmod->mdef);
        size_t pi = 0, si = 0;
        int wnext = 0;
        bool score_clause = s.d->acmod->compallsen && s.scores_commensurable;
        for (size_t w = 0; w < r.words.size(); ++w) {
            const AlEnt &we = r.words[w];
            const SegR &g = *dw[w];
            std::string where = "word " + std::to_string(w) + " '" + we.name + "'";
            if (we.name != g.word)
                bad("words_vs_segmentation", "name", where + " but the segmentation says '" + g.word + "'");
            if (we.start != g.sf || we.dur != g.ef - g.sf + 1)
                bad("words_vs_segmentation", "frames", where + " spans start " + std::to_string(we.start) + " dur " + std::to_string(we.dur) + ", segmentation [" +
                        std::to_string(g.sf) + "," + std::to_string(g.ef) + "]");
            if (we.start != wnext)
                bad("contiguity", "word", where + " starts at " + std::to_string(we.start) + ", previous word ended before " + std::to_string(wnext));
            if (we.dur <= 0)
                bad("positive_duration", "word", where + " has duration " + std::to_string(we.dur));
            wnext = we.start + we.dur;
            // phones = dictionary pronunciation
            std::vector<std::string> pron;
            {
                char *ph = decoder_lookup_word(s.d, we.name.c_str());
                if (ph) {
                    std::string t = ph, cur;
                    for (char c : t + " ") {
                        if (c == ' ') {
                            if (!cur.empty())
                                pron.push_back(cur);
                            cur.clear();
                        } else
                            cur += c;
                    }
                    ckd_free(ph);
                }
            }
            if ((size_t)we.nchild != pron.size())
                bad("phones_vs_dictionary", "count", where + " has " + std::to_string(we.nchild) + " phones, the dictionary pronunciation " + std::to_string(pron.size()));
            int pnext = we.start;
            int64_t psum = 0, pdur = 0;
            // the model's own answer to "this phone's emitting states": the senones of the triphone (phone, left
            // neighbour, right neighbour, position in word) in the model definition, neighbours taken across word
            // boundaries from the adjacent alignment words and silence outside the utterance
            bin_mdef_t *mdef = s.d->acmod->mdef;
            auto ci_of = [&](const std::string &nm) { return bin_mdef_ciphone_id(mdef, nm.c_str()); };
            auto edge_phone = [&](size_t wi, bool last) -> int {
                char *ph = decoder_lookup_word(s.d, r.words[wi].name.c_str());
                if (!ph)
                    return -1;
                std::string t = ph;
                ckd_free(ph);
                size_t a = last ? t.find_last_of(' ') : std::string::npos, b = last ? std::string::npos : t.find(' ');
                std::string nm = last ? (a == std::string::npos ? t : t.substr(a + 1)) : t.substr(0, b);
                return ci_of(nm);
            };
            const int sil = bin_mdef_silphone(mdef);
            const int word_lc = w == 0 ? sil : edge_phone(w - 1, true), word_rc = w + 1 == r.words.size() ? sil : edge_phone(w + 1, false);
            for (int k = 0; k < we.nchild && pi < r.phones.size(); ++k, ++pi) {
                const AlEnt &pe = r.phones[pi];
                std::string pw = where + " phone " + std::to_string(k) + " '" + pe.name + "'";
                if (pron.size() == (size_t)we.nchild && pe.nchild == n_emit && si + (size_t)n_emit <= r.states.size() && !config_bool(s.d->config, "cionly")) {
                    int b = ci_of(pron[(size_t)k]);
                    int l = k == 0 ? word_lc : ci_of(pron[(size_t)k - 1]);
                    int rr = k + 1 == we.nchild ? word_rc : ci_of(pron[(size_t)k + 1]);
                    word_posn_t pos = we.nchild == 1 ? WORD_POSN_SINGLE : k == 0 ? WORD_POSN_BEGIN : k + 1 == we.nchild ? WORD_POSN_END : WORD_POSN_INTERNAL;
                    if (b >= 0 && l >= 0 && rr >= 0) {
                        int pid = bin_mdef_phone_id_nearest(mdef, b, l, rr, pos);
                        int ssid = bin_mdef_pid2ssid(mdef, pid);
                        for (int q = 0; q < n_emit; ++q) {
                            int want = bin_mdef_sseq2sen(mdef, ssid, q);
                            const std::string &got = r.states[si + (size_t)q].name;
                            if (got != std::to_string(want)) {
                                bad("states_vs_model", we.nchild == 1 ? "one_phone_word" : k == 0 ? "first_phone" : k + 1 == we.nchild ? "last_phone" : "inner_phone",
                                    pw + " state " + std::to_string(q) + " is senone " + got + ", the model's " + pron[(size_t)k] + "(" + bin_mdef_ciphone_str(mdef, l) + "," +
                                        bin_mdef_ciphone_str(mdef, rr) + ") has senone " + std::to_string(want));
                                break;
                            }
                        }
                        out.probes["align.states_vs_model_checked"]++;
                    }
                }
                if ((size_t)k < pron.size() && pe.name != pron[(size_t)k])
                    bad("phones_vs_dictionary", "name", pw + " but the dictionary says '" + pron[(size_t)k] + "'");
                if (pe.start != pnext)
                    bad("partition", "phone_start", pw + " starts at " + std::to_string(pe.start) + ", expected " + std::to_string(pnext));
                if (pe.dur <= 0)
                    bad("positive_duration", "phone", pw + " has duration " + std::to_string(pe.dur));
                pnext = pe.start + pe.dur;
                psum += pe.score;
                pdur += pe.dur;
                if (pe.nchild != n_emit)
                    bad("states_per_phone", "count", pw + " has " + std::to_string(pe.nchild) + " states, the model has " + std::to_string(n_emit) + " emitting states per phone");
                int snext = pe.start;
                int64_t ssum = 0, sdur = 0;
                for (int q = 0; q < pe.nchild && si < r.states.size(); ++q, ++si) {
                    const AlEnt &se = r.states[si];
                    std::string sw = pw + " state " + std::to_string(q);
                    if (se.start != snext)
                        bad("partition", "state_start", sw + " starts at " + std::to_string(se.start) + ", expected " + std::to_string(snext));
                    if (se.dur <= 0)
                        bad("positive_duration", "state", sw + " has duration " + std::to_string(se.dur));
                    snext = se.start + se.dur;
                    ssum += se.score;
                    sdur += se.dur;
                }
                if (sdur != pe.dur)
                    bad("partition", "state_durations", pw + " lasts " + std::to_string(pe.dur) + " frames, its states " + std::to_string(sdur));
                if (ssum != pe.score)
                    bad("score_additivity", "phone", pw + " scores " + std::to_string(pe.score) + ", its states sum to " + std::to_string(ssum));
            }
            if (pdur != we.dur)
                bad("partition", "phone_durations", where + " lasts " + std::to_string(we.dur) + " frames, its phones " + std::to_string(pdur));
            if (psum != we.score)
                bad("score_additivity", "word", where + " scores " + std::to_string(we.score) + ", its phones sum to " + std::to_string(psum));
            // word score = acoustic part of the score the search assigned to that word over the same frames; only where
            // the two passes are commensurable by construction: all senones computed, no insertion penalties in ascr
            if (score_clause) {
                out.probes["align.score_clause_evaluated"]++;
                // trigger: where the search's own context approximations sit (see known_findings.json)
                const char *trig = pron.size() == 1 ? "one_phone_word" : w + 1 == r.words.size() ? "last_word" : w == 0 ? "first_word" : "inner_word";
                if (we.score != g.ascr)
                    bad("word_score_vs_search", trig, where + " alignment score " + std::to_string(we.score) + " != first-pass acoustic score " +
                            std::to_string(g.ascr) + " over frames [" + std::to_string(g.sf) + "," + std::to_string(g.ef) + "]");
            }
        }
        if (pi != r.phones.size() || si != r.states.size())
            bad("partition", "orphans", "phones or states not under any word: " + std::to_string(r.phones.size() - pi) + " / " + std::to_string(r.states.size() - si));
        out.probes["align.hierarchy_checked"]++;
    }

    // ---- C11: the lattice is a well-formed, time-consistent graph of grammar paths
    bool lat_is_connector(const Lat &L, int n) const
    {
        const LatNode &x = L.nodes[(size_t)n];
        return (n == L.start && x.word == "<s>") || (n == L.end && x.word == "</s>");
    }
    void check_lattice(DecState &s, const Lat &L, const Rec &r, int opi)
    {
        if (L.null)
            return;
        out.checks++;
        auto bad = [&](const char *inv, const std::string &trig, const std::string &msg) { viol("C11", inv, trig, msg, opi); };
        const size_t N = L.nodes.size();
        if (L.start < 0 || L.end < 0) {
            bad("single_start_end", "missing", "lattice without start or end node");
            return;
        }
        for (auto &l : L.links)
            if (l.to < 0) {
                bad("wellformed", "dangling_link", "link to a node that is not in the node list");
                return;
            }
        // reachability from start / co-reachability to end
        std::vector<char> fwd(N, 0), bwd(N, 0);
        {
            std::vector<int> q = { L.start };
            fwd[(size_t)L.start] = 1;
            while (!q.empty()) {
                int n = q.back();
                q.pop_back();
                for (int li : L.nodes[(size_t)n].exits) {
                    int t = L.links[(size_t)li].to;
                    if (!fwd[(size_t)t]) { fwd[(size_t)t] = 1; q.push_back(t); }
                }
            }
            q = { L.end };
            bwd[(size_t)L.end] = 1;
            while (!q.empty()) {
                int n = q.back();
                q.pop_back();
                for (int li : L.nodes[(size_t)n].entries) {
                    int f = L.links[(size_t)li].from;
                    if (!bwd[(size_t)f]) { bwd[(size_t)f] = 1; q.push_back(f); }
                }
            }
        }
        for (size_t n = 0; n < N; ++n) {
            if (!fwd[n])
                bad("on_start_end_path", "unreachable", "node " + L.nodes[n].word + "@" + std::to_string(L.nodes[n].sf) + " cannot be reached from the start node");
            if (!bwd[n])
                bad("on_start_end_path", "dead_end", "node " + L.nodes[n].word + "@" + std::to_string(L.nodes[n].sf) + " cannot reach the end node");
        }
        if (!L.nodes[(size_t)L.start].entries.empty())
            bad("single_start_end", "start_has_entries", "the start node has incoming links");
        if (!L.nodes[(size_t)L.end].exits.empty())
            bad("single_start_end", "end_has_exits", "the end node has outgoing links");
        // acyclic (Kahn)
        std::vector<int> topo;
        {
            std::vector<int> indeg(N, 0);
            for (auto &l : L.links)
                indeg[(size_t)l.to]++;
            std::vector<int> q;
            for (size_t n = 0; n < N; ++n)
                if (!indeg[n])
                    q.push_back((int)n);
            while (!q.empty()) {
                int n = q.back();
                q.pop_back();
                topo.push_back(n);
                for (int li : L.nodes[(size_t)n].exits)
                    if (--indeg[(size_t)L.links[(size_t)li].to] == 0)
                        q.push_back(L.links[(size_t)li].to);
            }
            if (topo.size() != N) {
                bad("acyclic", "cycle", "the lattice has a cycle");
                return;
            }
        }
        // time adjacency
        for (auto &l : L.links) {
            const LatNode &u = L.nodes[(size_t)l.from], &v = L.nodes[(size_t)l.to];
            std::string name = u.word + "@" + std::to_string(u.sf) + "[" + std::to_string(u.fef) + ".." + std::to_string(u.lef) + "] -> " + v.word + "@" + std::to_string(v.sf) + " ef " + std::to_string(l.ef);
            if (v.sf < 0 || v.sf > L.n_frames || u.sf < 0)
                bad("time", "outside_utterance", name + " lies outside the utterance of " + std::to_string(L.n_frames) + " frames");
            if (lat_is_connector(L, l.from)) {
                if (v.sf != 0)
                    bad("time", "start_connector", name + ": successor of the start connector does not start at frame 0");
            } else if (lat_is_connector(L, l.to)) {
                // all words joined by the end connector end in the same frame: the last frame in which anything ends
                int last = -1;
                for (auto &nn : L.nodes)
                    if (&nn != &v)
                        last = std::max(last, nn.lef);
                if (u.lef != last)
                    bad("time", "end_connector", name + ": predecessor of the end connector does not end at the last end frame " + std::to_string(last));
            } else {
                if (l.ef < u.fef || l.ef > u.lef)
                    bad("time", "ef_outside_node_range", name + ": link end frame outside the node's end-frame range");
                if (v.sf != l.ef + 1)
                    bad("time", "not_adjacent", name + ": successor does not start on the frame after the link's end frame");
            }
        }
        // labels along ANY path form a path of the reference automaton: product construction, propagated in
        // topological order; per node the set of distinct automaton state sets that some path prefix reaches
        if (s.has_grammar && fwd[(size_t)L.end]) {
            const Nfa &A = s.nfa;
            auto closure = [&](std::set<int> st) {
                std::vector<int> q(st.begin(), st.end());
                while (!q.empty()) {
                    int x = q.back();
                    q.pop_back();
                    for (auto &arc : A.arcs)
                        if (arc.from == x && arc.label.empty() && st.insert(arc.to).second)
                            q.push_back(arc.to);
                }
                return st;
            };
            auto step = [&](const std::set<int> &st, const std::string &w) {
                std::set<int> nx;
                for (auto &arc : A.arcs)
                    if (!arc.label.empty() && arc.label == w && st.count(arc.from))
                        nx.insert(arc.to);
                return closure(nx);
            };
            std::vector<std::set<std::set<int>>> at(N);
            bool overflow = false, reported = false;
            auto consume = [&](int n, const std::set<int> &in) {
                const LatNode &x = L.nodes[(size_t)n];
                if (lat_is_connector(L, n) || is_filler(s, x.word))
                    return in;
                return step(in, base_of(x.word));
            };
            {
                std::set<int> st0 = closure({ A.start });
                at[(size_t)L.start].insert(consume(L.start, st0));
            }
            for (int n : topo) {
                if (!fwd[(size_t)n])
                    continue;
                for (auto &st : at[(size_t)n]) {
                    if (st.empty() && !reported) {
                        reported = true;
                        bad("grammar_path", s.gkind, "some lattice path through " + L.nodes[(size_t)n].word + "@" + std::to_string(L.nodes[(size_t)n].sf) +
                                " spells a word sequence that is not a path of the active " + s.gkind + " grammar");
                    }
                    for (int li : L.nodes[(size_t)n].exits) {
                        int t = L.links[(size_t)li].to;
                        if (at[(size_t)t].size() > 300) {
                            overflow = true;
                            continue;
                        }
                        at[(size_t)t].insert(consume(t, st));
                    }
                }
            }
            if (overflow)
                out.other["C11.grammar_path_check_truncated"]++;
            out.probes["lat.grammar_product_checked"]++;
        }
        // the first-best segmentation occurs as a lattice path
        if (!r.seg_null) {
            std::vector<const SegR *> segs;
            for (auto &g : r.segs)
                if (g.word != "(NULL)")
                    segs.push_back(&g);
            if (!segs.empty()) {
                // cand[k] = lattice nodes that can stand for segment k
                std::set<int> cur;
                for (size_t n = 0; n < N; ++n)
                    if (L.nodes[n].word == segs[0]->word && L.nodes[n].sf == segs[0]->sf)
                        cur.insert((int)n);
                size_t k = 0;
                for (; k + 1 < segs.size() && !cur.empty(); ++k) {
                    std::set<int> nx;
                    for (int n : cur)
                        for (int li : L.nodes[(size_t)n].exits) {
                            const LatLink &l = L.links[(size_t)li];
                            const LatNode &v = L.nodes[(size_t)l.to];
                            if (l.ef == segs[k]->ef && v.word == segs[k + 1]->word && v.sf == segs[k + 1]->sf)
                                nx.insert(l.to);
                        }
                    cur.swap(nx);
                }
                bool ok = false;
                for (int n : cur)
                    if (segs.back()->ef >= L.nodes[(size_t)n].fef && segs.back()->ef <= L.nodes[(size_t)n].lef)
                        ok = true;
                // trigger: a result that ends before the last frame searched is the known corner (see known_findings.json)
                if (!ok)
                    bad("first_best_in_lattice", segs.back()->ef < L.n_frames - 1 ? "result_ends_before_last_frame" : k + 1 < segs.size() ? "link_missing" : (cur.empty() ? "node_missing" : "end_frame"),
                        "the first-best segmentation is not a lattice path (lost at segment " + std::to_string(k) + " '" + segs[k]->word + "' [" + std::to_string(segs[k]->sf) + "," +
                            std::to_string(segs[k]->ef) + "]); lattice: " + L.canon().substr(0, 700));
                out.probes["lat.first_best_checked"]++;
            }
        }
        out.probes["lat.checked"]++;
        if (lat_is_connector(L, L.start))
            out.probes["lat.start_connector"]++;
        if (lat_is_connector(L, L.end))
            out.probes["lat.end_connector"]++;
    }

    // real-word sequence along SOME start->end path?  (product of lattice and word sequence)
    bool lattice_spells(DecState &s, const Lat &L, const std::vector<std::string> &words)
    {
        std::set<std::pair<int, size_t>> seen;
        std::vector<std::pair<int, size_t>> q;
        auto enter = [&](int n, size_t pos) {
            const LatNode &x = L.nodes[(size_t)n];
            if (!(lat_is_connector(L, n) || is_filler(s, x.word))) {
                if (pos >= words.size() || base_of(x.word) != words[pos])
                    return;
                pos++;
            }
            if (seen.insert({ n, pos }).second)
                q.push_back({ n, pos });
        };
        enter(L.start, 0);
        while (!q.empty()) {
            auto cur = q.back();
            q.pop_back();
            if (cur.first == L.end && cur.second == words.size())
                return true;
            for (int li : L.nodes[(size_t)cur.first].exits)
                enter(L.links[(size_t)li].to, cur.second);
        }
        return false;
    }

    // ---- C12: N-best order, N-best hypotheses are lattice paths, best path is maximal, posteriors sane
    void check_nbest(DecState &s, const Lat &L, int k, bool abandon, int opi)
    {
        auto bad = [&](const char *inv, const std::string &trig, const std::string &msg) { viol("C12", inv, trig, msg, opi); };
        hyp_iter_t *it = decoder_nbest(s.d);
        int n = 0;
        int32 prev = 0;
        bool have_prev = false;
        while (it) {
            int32 sc = SCORE_SENTINEL;
            const char *h = hyp_iter_hyp(it, &sc);
            std::string hyp = h ? h : "";
            out.events.str(hyp);
            out.events.i64(sc);
            out.checks++;
            if (have_prev && sc > prev)
                bad("nbest_order", "increase", "N-best entry " + std::to_string(n) + " scores " + std::to_string(sc) + " after " + std::to_string(prev));
            prev = sc;
            have_prev = true;
            std::vector<std::string> words;
            {
                std::string cur;
                for (char c : hyp + " ") {
                    if (c == ' ') {
                        if (!cur.empty())
                            words.push_back(base_of(cur));
                        cur.clear();
                    } else
                        cur += c;
                }
            }
            if (!L.null && L.start >= 0 && L.end >= 0 && !lattice_spells(s, L, words))
                bad("nbest_is_lattice_path", "words", "N-best entry " + std::to_string(n) + " '" + hyp + "' is not the word sequence of any start-to-end lattice path");
            // the node walk follows existing links
            seg_iter_t *sg = hyp_iter_seg(it);
            std::set<int> cands; // lattice nodes that can stand for the previous segment (several share word and start frame)
            bool first_seg = true, walk_ok = true;
            for (; sg; sg = seg_iter_next(sg)) {
                const char *w = seg_iter_word(sg);
                int sf, ef;
                seg_iter_frames(sg, &sf, &ef);
                std::set<int> nx;
                for (size_t q = 0; q < L.nodes.size(); ++q) {
                    if (L.nodes[q].word != (w ? w : "") || L.nodes[q].sf != sf)
                        continue;
                    if (first_seg) {
                        // a start-to-end path begins at THE start node, not at any node of the first frame
                        if ((int)q == L.start)
                            nx.insert((int)q);
                    } else
                        for (int pn : cands)
                            for (int li : L.nodes[(size_t)pn].exits)
                                if (L.links[(size_t)li].to == (int)q)
                                    nx.insert((int)q);
                }
                if (nx.empty())
                    walk_ok = false;
                else
                    cands.swap(nx);
                first_seg = false;
            }
            if (!walk_ok && !L.null)
                bad("nbest_is_lattice_path", "node_walk", "the segmentation of N-best entry " + std::to_string(n) + " does not follow lattice links");
            ++n;
            out.probes["nbest.entries"]++;
            if (n >= k) {
                if (abandon) {
                    hyp_iter_free(it);
                    out.probes["nbest.abandoned"]++;
                    it = nullptr;
                    break;
                }
            }
            if (n >= 200)
                { hyp_iter_free(it); it = nullptr; break; }
            it = hyp_iter_next(it);
        }
        if (n > 1)
            out.probes["nbest.several_entries"]++;
    }

    void check_posteriors(DecState &s, lattice_t *dag, const Lat &L, int opi)
    {
        auto bad = [&](const char *inv, const std::string &trig, const std::string &msg) { viol("C12", inv, trig, msg, opi); };
        if (L.null || L.start < 0 || L.end < 0 || L.nodes[(size_t)L.end].entries.empty())
            return;
        float32 ascale = (float32)(1.0 / config_float(s.d->config, "ascale"));
        latlink_t *best = lattice_bestpath(dag, ascale);
        out.checks++;
        // independent longest-path DP over the (acyclic) link list
        const size_t N = L.nodes.size();
        std::vector<int64_t> bestto(N, INT64_MIN);
        std::vector<int> indeg(N, 0), q;
        for (auto &l : L.links)
            indeg[(size_t)l.to]++;
        for (size_t n = 0; n < N; ++n)
            if (!indeg[n])
                q.push_back((int)n);
        bestto[(size_t)L.start] = 0;
        size_t seen = 0;
        while (!q.empty()) {
            int n = q.back();
            q.pop_back();
            ++seen;
            for (int li : L.nodes[(size_t)n].exits) {
                const LatLink &l = L.links[(size_t)li];
                if (bestto[(size_t)n] != INT64_MIN && bestto[(size_t)n] + l.ascr > bestto[(size_t)l.to])
                    bestto[(size_t)l.to] = bestto[(size_t)n] + l.ascr;
                if (--indeg[(size_t)l.to] == 0)
                    q.push_back(l.to);
            }
        }
        if (seen != N)
            return; // cyclic: C11's business
        if (!best)
            bad("bestpath_maximal", "none", "lattice_bestpath found no path although the end node has entries");
        else if ((int64_t)best->path_scr != bestto[(size_t)L.end])
            bad("bestpath_maximal", best->path_scr < bestto[(size_t)L.end] ? "not_maximal" : "not_achievable",
                "lattice_bestpath score " + std::to_string(best->path_scr) + ", best start-to-end path by independent DP " + std::to_string(bestto[(size_t)L.end]));
        out.events.i64(best ? best->path_scr : 0);
        if (best) {
            // the best path as a word string: the base spellings of the non-filler words along its links, read here
            // through the public link/node fields and the dictionary
            std::vector<std::string> ws;
            dict_t *dd = s.d->dict;
            auto word_of = [&](latnode_t *n) {
                if (n && n->wid >= 0 && n->wid < dict_size(dd) && !dict_filler_word(dd, n->wid) && n->wid != dict_startwid(dd) && n->wid != dict_finishwid(dd))
                    ws.push_back(base_of(dict_wordstr(dd, n->wid)));
            };
            word_of(best->to);
            int guard = 0;
            for (latlink_t *l = best; l && guard < 100000; l = l->best_prev, ++guard)
                word_of(l->from);
            std::string want;
            for (size_t i = ws.size(); i-- > 0;)
                want += (want.empty() ? "" : " ") + ws[i];
            const char *hs = lattice_hyp(dag, best);
            out.checks++;
            if (!hs || want != hs)
                bad("bestpath_words", "hyp_string", std::string("lattice_hyp of the best path is '") + (hs ? hs : "(null)") + "', its links spell '" + want + "'");
        }
        // asked once, or (every other request) twice in a row with nothing in between: the second answer and the link
        // posteriors after it must be those of the first (the backward pass starts from scratch each time)
        const int passes = 1 + (opi & 1);
        int32 first_post = 0;
        for (int pass = 0; pass < passes; ++pass) {
        int32 post = lattice_posterior(dag, ascale);
        out.events.i64(post);
        if (pass == 0)
            first_post = post;
        else {
            out.probes["lat.posterior_asked_twice"]++;
            if (post != first_post)
                bad("posterior_repeatable", "second_request", "lattice_posterior returned " + std::to_string(first_post) + ", then " + std::to_string(post) + " with nothing in between");
        }
        const int64_t eps = std::max<int64_t>(64, 4 * (int64_t)L.links.size());
        if (post > eps)
            bad("posterior_range", "best_path", "posterior of the best path " + std::to_string(post) + " (log) exceeds one");
        int32 zero = logmath_get_zero(dag->lmath);
        // every link posterior <= 1; forward total (norm) = backward total over the start node's exits
        int32 back = zero;
        for (auto &l : L.links) {
            const latlink_t *ll = (const latlink_t *)l.ptr;
            int32 p = ps_latlink_prob(dag, (latlink_t *)ll, NULL);
            out.checks++;
            if (ll->alpha > zero / 2 && ll->beta > zero / 2 && p > eps)
                bad("posterior_range", "link", "link posterior " + std::to_string(p) + " (log) exceeds one by more than the rounding bound " + std::to_string(eps));
            if (l.from == L.start)
                back = logmath_add(dag->lmath, back, ll->beta + (int32)((ll->ascr << SENSCR_SHIFT) * ascale));
        }
        if (std::llabs((int64_t)back - (int64_t)dag->norm) > eps)
            bad("forward_backward_agree", "totals", "forward total " + std::to_string(dag->norm) + " and backward total " + std::to_string(back) + " differ by more than " + std::to_string(eps));
        }
        out.probes["lat.posteriors_checked"]++;
    }

    // ---- C14: the JSON result is well-formed and says what the iterators say
    // strict RFC 8259 validation of one value (no extensions: no control characters in strings, no leading zeros,
    // valid escapes, valid UTF-8); returns the position after the value or npos
    static size_t json_strict(const std::string &t, size_t p, int depth, std::string &err)
    {
        auto ws = [&]() {
            while (p < t.size() && (t[p] == ' ' || t[p] == '\t' || t[p] == '\r' || t[p] == '\n'))
                ++p;
        };
        auto fail = [&](const char *m) {
            if (err.empty())
                err = std::string(m) + " at byte " + std::to_string(p);
            return std::string::npos;
        };
        if (depth > 64)
            return fail("too deep");
        ws();
        if (p >= t.size())
            return fail("unexpected end");
        unsigned char c = (unsigned char)t[p];
        if (c == '{') {
            ++p;
            ws();
            if (p < t.size() && t[p] == '}')
                return p + 1;
            for (;;) {
                ws();
                if (p >= t.size() || t[p] != '"')
                    return fail("expected member name");
                p = json_strict(t, p, depth + 1, err);
                if (p == std::string::npos)
                    return p;
                ws();
                if (p >= t.size() || t[p] != ':')
                    return fail("expected ':'");
                ++p;
                p = json_strict(t, p, depth + 1, err);
                if (p == std::string::npos)
                    return p;
                ws();
                if (p < t.size() && t[p] == ',') { ++p; continue; }
                if (p < t.size() && t[p] == '}')
                    return p + 1;
                return fail("expected ',' or '}'");
            }
        }
        if (c == '[') {
            ++p;
            ws();
            if (p < t.size() && t[p] == ']')
                return p + 1;
            for (;;) {
                p = json_strict(t, p, depth + 1, err);
                if (p == std::string::npos)
                    return p;
                ws();
                if (p < t.size() && t[p] == ',') { ++p; continue; }
                if (p < t.size() && t[p] == ']')
                    return p + 1;
                return fail("expected ',' or ']'");
            }
        }
        if (c == '"') {
            ++p;
            while (p < t.size() && t[p] != '"') {
                unsigned char ch = (unsigned char)t[p];
                if (ch < 0x20)
                    return fail("control character in string");
                if (ch == '\\') {
                    if (p + 1 >= t.size())
                        return fail("bad escape");
                    char e = t[p + 1];
                    if (e == 'u') {
                        if (p + 6 > t.size())
                            return fail("bad \\u escape");
                        for (int k = 2; k < 6; ++k)
                            if (!isxdigit((unsigned char)t[p + (size_t)k]))
                                return fail("bad \\u escape");
                        p += 6;
                    } else if (strchr("\"\\/bfnrt", e))
                        p += 2;
                    else
                        return fail("bad escape");
                    continue;
                }
                if (ch >= 0x80) { // UTF-8 well-formedness
                    int n = ch >= 0xf0 ? 3 : ch >= 0xe0 ? 2 : ch >= 0xc2 ? 1 : -1;
                    if (n < 0 || ch > 0xf4 || p + (size_t)n >= t.size())
                        return fail("invalid UTF-8");
                    for (int k = 1; k <= n; ++k)
                        if (((unsigned char)t[p + (size_t)k] & 0xc0) != 0x80)
                            return fail("invalid UTF-8");
                    p += (size_t)n + 1;
                    continue;
                }
                ++p;
            }
            if (p >= t.size())
                return fail("unterminated string");
            return p + 1;
        }
        if (!t.compare(p, 4, "true")) return p + 4;
        if (!t.compare(p, 5, "false")) return p + 5;
        if (!t.compare(p, 4, "null")) return p + 4;
        // number
        size_t q = p;
        if (q < t.size() && t[q] == '-') ++q;
        if (q >= t.size() || !isdigit((unsigned char)t[q]))
            return fail("bad value");
        if (t[q] == '0') ++q;
        else while (q < t.size() && isdigit((unsigned char)t[q])) ++q;
        if (q < t.size() && t[q] == '.') {
            ++q;
            if (q >= t.size() || !isdigit((unsigned char)t[q]))
                return fail("bad fraction");
            while (q < t.size() && isdigit((unsigned char)t[q])) ++q;
        }
        if (q < t.size() && (t[q] == 'e' || t[q] == 'E')) {
            ++q;
            if (q < t.size() && (t[q] == '+' || t[q] == '-')) ++q;
            if (q >= t.size() || !isdigit((unsigned char)t[q]))
                return fail("bad exponent");
            while (q < t.size() && isdigit((unsigned char)t[q])) ++q;
        }
        return q;
    }
    static std::string f3(double v)
    {
        char b[64];
        snprintf(b, sizeof b, "%.3f", v);
        return b;
    }
    // the number as printed in the JSON text for member `key` of object text... we compare printed forms: re-print the parsed double
    void json_cmp_entry(const Json &o, const std::string &what, double b, double d, double pr, const std::string &t, int opi)
    {
        auto bad = [&](const std::string &trig, const std::string &msg) { viol("C14", "fields_agree", trig, what + ": " + msg, opi); };
        if (o.t != Json::OBJ) {
            bad("shape", "not an object");
            return;
        }
        for (const char *k : { "b", "d", "p", "t" })
            if (!o.has(k)) {
                bad("shape", std::string("member ") + k + " missing");
                return;
            }
        if (f3(o.getd("b")) != f3(b))
            bad("b", "start " + f3(o.getd("b")) + ", interface says " + f3(b));
        if (f3(o.getd("d")) != f3(d))
            bad("d", "duration " + f3(o.getd("d")) + ", interface says " + f3(d));
        if (f3(o.getd("p")) != f3(pr))
            bad("p", "probability " + f3(o.getd("p")) + ", interface says " + f3(pr));
        if (o.gets("t") != t)
            bad("t", "text '" + o.gets("t") + "', interface says '" + t + "'");
    }
    void check_json(DecState &s, const Json &op, bool final, int opi)
    {
        (void)final;
        int level = (int)op.geti("level", 0);
        double start = op.getd("start", 0.0);
        Rec r = capture(s.d);
        if (level > 0)
            capture_alignment(s.d, r);
        int32 prob = decoder_prob(s.d);
        const char *js = decoder_result_json(s.d, start, level);
        out.checks++;
        out.events.str(js ? js : "(null)");
        out.probes[js ? "json.returned" : "json.null"]++;
        if (!js) {
            if (level == 0)
                viol("C14", "returned", "null_at_level0", "decoder_result_json(level 0) returned NULL", opi);
            else if (!r.align_null)
                viol("C14", "returned", "null_with_alignment", "decoder_result_json returned NULL although an alignment exists", opi);
            return;
        }
        std::string t = js;
        // exactly as long as the buffer allocated for it
        size_t alloc = __sanitizer_get_allocated_size(js);
        if (alloc != 0 && alloc != t.size() + 1)
            viol("C14", "buffer_length", "size", "JSON text of " + std::to_string(t.size()) + "+1 bytes in a buffer of " + std::to_string(alloc), opi);
        if (t.empty() || t.back() != '\n' || (t.size() > 1 && t[t.size() - 2] == '\n'))
            viol("C14", "wellformed", "newline", "not terminated by exactly one newline", opi);
        std::string err;
        size_t e = json_strict(t, 0, 0, err);
        if (e == std::string::npos || t[0] != '{' || e != t.size() - 1) {
            viol("C14", "wellformed", err.empty() ? "trailing" : "syntax", "not one valid JSON object + newline: " + (err.empty() ? std::string("trailing data") : err) + ": " + t.substr(0, 200), opi);
            return;
        }
        Json j;
        if (!Json::parse_rfc(t, j)) {
            out.other["json.harness_parser_disagrees"]++;
            return;
        }
        logmath_t *lm = decoder_logmath(s.d);
        int frate = (int)config_int(decoder_config(s.d), "frate");
        json_cmp_entry(j, "result", start, (double)r.n_frames / frate, logmath_exp(lm, prob), r.hyp_null ? "" : r.hyp, opi);
        const Json &w = j["w"];
        if (w.t != Json::ARR) {
            viol("C14", "fields_agree", "shape", "member w is not an array", opi);
            return;
        }
        if (level == 0) {
            if (w.a.size() != r.segs.size())
                viol("C14", "fields_agree", "count", "JSON lists " + std::to_string(w.a.size()) + " segments, the iterator " + std::to_string(r.segs.size()), opi);
            for (size_t k = 0; k < w.a.size() && k < r.segs.size(); ++k) {
                const SegR &g = r.segs[k];
                json_cmp_entry(w.a[k], "segment " + std::to_string(k), start + (double)g.sf / frate, (double)(g.ef + 1 - g.sf) / frate, logmath_exp(lm, g.prob), g.word, opi);
            }
            if (r.segs.empty())
                out.probes["json.empty_result"]++;
        } else {
            if (w.a.size() != r.words.size())
                viol("C14", "fields_agree", "count", "JSON lists " + std::to_string(w.a.size()) + " words, the alignment " + std::to_string(r.words.size()), opi);
            size_t pi = 0, si = 0;
            for (size_t k = 0; k < w.a.size() && k < r.words.size(); ++k) {
                const AlEnt &we = r.words[k];
                json_cmp_entry(w.a[k], "word " + std::to_string(k), start + (double)we.start / frate, (double)we.dur / frate, logmath_exp(lm, we.score), we.name, opi);
                const Json &ph = w.a[k]["w"];
                if (ph.t != Json::ARR || (int)ph.a.size() != we.nchild) {
                    viol("C14", "fields_agree", "count", "word " + std::to_string(k) + " lists " + std::to_string(ph.a.size()) + " phones, the alignment " + std::to_string(we.nchild), opi);
                    pi += (size_t)we.nchild;
                    continue;
                }
                for (int q = 0; q < we.nchild && pi < r.phones.size(); ++q, ++pi) {
                    const AlEnt &pe = r.phones[pi];
                    json_cmp_entry(ph.a[(size_t)q], "phone " + std::to_string(pi), start + (double)pe.start / frate, (double)pe.dur / frate, logmath_exp(lm, pe.score), pe.name, opi);
                    if (level > 1) {
                        const Json &st = ph.a[(size_t)q]["w"];
                        if (st.t != Json::ARR || (int)st.a.size() != pe.nchild) {
                            viol("C14", "fields_agree", "count", "phone " + std::to_string(pi) + " lists " + std::to_string(st.a.size()) + " states, the alignment " + std::to_string(pe.nchild), opi);
                            si += (size_t)pe.nchild;
                            continue;
                        }
                        for (int z = 0; z < pe.nchild && si < r.states.size(); ++z, ++si) {
                            const AlEnt &se = r.states[si];
                            json_cmp_entry(st.a[(size_t)z], "state " + std::to_string(si), start + (double)se.start / frate, (double)se.dur / frate, logmath_exp(lm, se.score), se.name, opi);
                        }
                    } else
                        si += (size_t)pe.nchild;
                }
            }
            out.probes["json.with_alignment"]++;
        }
        out.probes["json.checked"]++;
        for (unsigned char ch : t)
            if (ch == '\\' || ch >= 0x80) {
                out.probes["json.hostile_spelling_in_result"]++;
                break;
            }
    }

    // ---- C16: dictionary additions take effect and never disturb existing entries
    static std::string norm_pron(const std::string &p)
    {
        std::string o, cur;
        for (char c : p + " ") {
            if (c == ' ' || c == '\t' || c == '\n' || c == '\r' || c == '\f' || c == '\v') {
                if (!cur.empty())
                    o += (o.empty() ? "" : " ") + cur;
                cur.clear();
            } else
                cur += c;
        }
        return o;
    }
    std::string lib_lookup(DecState &s, const std::string &w, bool *present)
    {
        char *p = decoder_lookup_word(s.d, w.c_str());
        *present = p != nullptr;
        std::string r = p ? p : "";
        ckd_free(p);
        return r;
    }
    // numbered alternates of base, read off the public dict_t chain
    std::set<std::string> lib_alts(DecState &s, const std::string &base, bool *chain_ok)
    {
        std::set<std::string> r;
        *chain_ok = true;
        dict_t *d = s.d->dict;
        s3wid_t b = dict_wordid(d, base.c_str());
        if (b == BAD_S3WID)
            return r;
        int guard = 0;
        for (s3wid_t a = dict_nextalt(d, b); a != BAD_S3WID && a >= 0 && guard < 100000; a = dict_nextalt(d, a), ++guard) {
            if (a >= dict_size(d)) {
                *chain_ok = false;
                break;
            }
            if (dict_basewid(d, a) != b)
                *chain_ok = false;
            r.insert(dict_wordstr(d, a));
        }
        return r;
    }
    void dict_touch(DecState &s, const std::string &w)
    {
        // first contact with a spelling: the library's current state becomes the model's
        if (w.empty() || s.dict_model.count(w) || s.dict_model.count("\001absent:" + w))
            return;
        bool present;
        std::string p = lib_lookup(s, w, &present);
        if (present)
            s.dict_model[w] = p;
        else
            s.dict_model["\001absent:" + w] = "";
        std::string b = base_of(w);
        if (!s.alt_model.count(b)) {
            bool ok;
            s.alt_model[b] = lib_alts(s, b, &ok);
        }
    }
    bool model_has(DecState &s, const std::string &w) { return s.dict_model.count(w) != 0; }
    void dict_sample_old(DecState &s)
    {
        if (s.dict_sampled)
            return;
        s.dict_sampled = true;
        dict_t *d = s.d->dict;
        int n = dict_size(d);
        for (int k = 0; k < 24 && n > 0; ++k) {
            int wid = (int)(((int64_t)k * 7919 + 13) % n);
            const char *w = dict_wordstr(d, wid);
            if (!w)
                continue;
            bool present;
            s.old_words[w] = { wid, lib_lookup(s, w, &present) };
        }
    }
    // "usable immediately in grammars and alignment text": the search reads a word's cross-word context models from the
    // dictionary-to-model tables; for a word to be usable its rows must hold the model's answer (the senone sequence of
    // the nearest triphone in the model definition) for every possible neighbour - checked here deterministically,
    // before any search dereferences a missing row
    void d2p_check_word(DecState &s, const std::string &spelling, int opi, const char *when)
    {
        dict_t *dict = s.d->dict;
        dict2pid_t *d2p = s.d->d2p;
        bin_mdef_t *mdef = s.d->acmod->mdef;
        s3wid_t wid = dict_wordid(dict, spelling.c_str());
        if (wid == BAD_S3WID || !d2p)
            return;
        const int nci = bin_mdef_n_ciphone(mdef), np = dict_pronlen(dict, wid);
        out.checks++;
        auto want = [&](int b, int l, int r, word_posn_t pos) { return (int)bin_mdef_pid2ssid(mdef, bin_mdef_phone_id_nearest(mdef, b, l, r, pos)); };
        std::string where = std::string(when) + ": word '" + spelling + "'";
        if (np > 1) {
            int b = dict_first_phone(dict, wid), r = dict_second_phone(dict, wid);
            for (int l = 0; l < nci; ++l) {
                int got = d2p->ldiph_lc[b][r][l];
                if (got != want(b, l, r, WORD_POSN_BEGIN)) {
                    viol("C16", "context_tables", "word_initial", where + ": first phone " + bin_mdef_ciphone_str(mdef, b) + " after " + bin_mdef_ciphone_str(mdef, l) +
                             " has model id " + std::to_string(got) + ", the model definition says " + std::to_string(want(b, l, r, WORD_POSN_BEGIN)), opi);
                    return;
                }
            }
            int e = dict_last_phone(dict, wid), pl = dict_second_last_phone(dict, wid);
            xwdssid_t *x = &d2p->rssid[e][pl];
            for (int rc = 0; rc < nci; ++rc) {
                int got = x->n_ssid > 0 && x->cimap && x->ssid && x->cimap[rc] < x->n_ssid ? (int)x->ssid[x->cimap[rc]] : -1;
                if (got != want(e, pl, rc, WORD_POSN_END)) {
                    viol("C16", "context_tables", "word_final", where + ": last phone " + bin_mdef_ciphone_str(mdef, e) + " before " + bin_mdef_ciphone_str(mdef, rc) +
                             " has model id " + std::to_string(got) + ", the model definition says " + std::to_string(want(e, pl, rc, WORD_POSN_END)), opi);
                    return;
                }
            }
        } else if (np == 1) {
            int b = dict_first_phone(dict, wid);
            for (int l = 0; l < nci; ++l)
                for (int r = 0; r < nci; ++r) {
                    int got = d2p->lrdiph_rc[b][l][r];
                    if (got != want(b, l, r, WORD_POSN_SINGLE)) {
                        viol("C16", "context_tables", "one_phone_word", where + ": phone " + bin_mdef_ciphone_str(mdef, b) + " between " + bin_mdef_ciphone_str(mdef, l) + " and " +
                                 bin_mdef_ciphone_str(mdef, r) + " has model id " + std::to_string(got) + ", the model definition says " + std::to_string(want(b, l, r, WORD_POSN_SINGLE)), opi);
                        return;
                    }
                }
        }
        out.probes["dict.context_tables_checked"]++;
    }
    void dict_check_all(DecState &s, int opi, const char *when)
    {
        out.checks++;
        for (auto &kv : s.old_words)
            d2p_check_word(s, kv.first, opi, when);
        for (auto &kv : s.dict_model)
            if (kv.first.compare(0, 8, "\001absent:") != 0)
                d2p_check_word(s, kv.first, opi, when);
        for (auto &kv : s.dict_model) {
            if (kv.first.compare(0, 8, "\001absent:") == 0) {
                bool present;
                lib_lookup(s, kv.first.substr(8), &present);
                if (present)
                    viol("C16", "dictionary_unchanged", "absent_word_appeared", std::string(when) + ": word '" + kv.first.substr(8) + "' appeared without a successful addition", opi);
                continue;
            }
            bool present;
            std::string p = lib_lookup(s, kv.first, &present);
            if (!present)
                viol("C16", "existing_entries_kept", "word_lost", std::string(when) + ": word '" + kv.first + "' is no longer in the dictionary", opi);
            else if (p != kv.second)
                viol("C16", "existing_entries_kept", "pronunciation_changed", std::string(when) + ": word '" + kv.first + "' now reads '" + p + "', was '" + kv.second + "'", opi);
        }
        for (auto &kv : s.alt_model) {
            bool ok;
            std::set<std::string> a = lib_alts(s, kv.first, &ok);
            if (!ok)
                viol("C16", "alternate_chain", "corrupt", std::string(when) + ": the alternate chain of '" + kv.first + "' is corrupt", opi);
            else if (a != kv.second) {
                std::string got, want;
                for (auto &x : a) got += x + " ";
                for (auto &x : kv.second) want += x + " ";
                viol("C16", "alternate_chain", "members", std::string(when) + ": alternates of '" + kv.first + "' are {" + got + "}, expected {" + want + "}", opi);
            }
        }
        for (auto &kv : s.old_words) {
            s3wid_t wid = dict_wordid(s.d->dict, kv.first.c_str());
            bool present;
            std::string p = lib_lookup(s, kv.first, &present);
            if (wid != kv.second.first || p != kv.second.second)
                viol("C16", "existing_entries_kept", "old_word_disturbed", std::string(when) + ": pre-existing word '" + kv.first + "' changed identity or pronunciation", opi);
        }
    }
    void do_add_word(DecState &s, const Json &op, int opi)
    {
        const std::string word = op.gets("word"), phones = op.gets("phones");
        dict_sample_old(s);
        dict_touch(s, word);
        dict_touch(s, base_of(word));
        int size_before = dict_size(s.d->dict);
        // expected outcome, from the property text
        const Lang &L = lang(lang_of(s.tmpl));
        std::string np = norm_pron(phones);
        bool unknown_phone = false;
        {
            std::string cur;
            for (char c : np + " ") {
                if (c == ' ') {
                    if (!cur.empty() && std::find(L.phones.begin(), L.phones.end(), cur) == L.phones.end())
                        unknown_phone = true;
                    cur.clear();
                } else
                    cur += c;
            }
        }
        std::string base = base_of(word);
        const char *why = nullptr;
        if (s.in_utt && op.getb("update", true) && s.d->search)
            why = "utterance_in_progress"; // the search cannot be rebuilt under a running utterance: refused as a whole
        else if (word.empty())
            why = "empty_word";
        else if (np.empty())
            why = "empty_pronunciation";
        else if (unknown_phone)
            why = "unknown_phone";
        else if (model_has(s, word))
            why = "duplicate";
        else if (base != word && !model_has(s, base))
            why = "alternate_without_base";
        int rv = decoder_add_word(s.d, word.c_str(), phones.c_str(), op.getb("update", true));
        out.events.i64(rv >= 0);
        out.checks++;
        out.probes[why ? std::string("dict.expected_reject.") + why : "dict.expected_accept"]++;
        if (why) {
            if (rv >= 0)
                viol("C16", "rejected_add_reports_failure", why, "adding '" + word + "' / '" + phones + "' (" + why + ") reported success", opi);
            else {
                if (dict_size(s.d->dict) != size_before)
                    viol("C16", "rejected_add_leaves_dictionary_unchanged", "size", "a rejected addition changed the dictionary size", opi);
                dict_check_all(s, opi, "after a rejected addition");
            }
            if (rv >= 0) { // keep the model in step with what the library did, the violation is already recorded
                s.dict_model.erase("\001absent:" + word);
                bool present;
                s.dict_model[word] = lib_lookup(s, word, &present);
            }
            return;
        }
        if (rv < 0) {
            viol("C16", "valid_add_accepted", "refused", "adding '" + word + "' / '" + np + "' was refused", opi);
            return;
        }
        s.dict_model.erase("\001absent:" + word);
        s.dict_model[word] = np;
        if (base != word)
            s.alt_model[base].insert(word);
        else if (!s.alt_model.count(word))
            s.alt_model[word] = {};
        if (dict_size(s.d->dict) != size_before + 1)
            viol("C16", "addition_takes_effect", "size", "an accepted addition did not grow the dictionary by one", opi);
        if (dict_wordid(s.d->dict, word.c_str()) != rv)
            viol("C16", "addition_takes_effect", "id", "decoder_add_word returned id " + std::to_string(rv) + " but the word is found under another id", opi);
        if (base != word && dict_basewid(s.d->dict, rv) != dict_wordid(s.d->dict, base.c_str()))
            viol("C16", "alternate_linked_to_base", "basewid", "alternate '" + word + "' is not linked to its base word", opi);
        if (size_before / 4096 != (size_before + 1) / 4096)
            out.probes["dict.realloc"]++;
        dict_check_all(s, opi, "after an accepted addition");
    }

    // ---- C18: features and scores stay finite and within range for any audio
    void c18_features(DecState &s, int opi)
    {
        // dynamic features of the frames buffered so far (no_search feeding keeps them in the public feature buffer)
        acmod_t *am = s.d->acmod;
        feat_t *fcb = am->fcb;
        int k = 0;
        for (int i = 0; i < feat_n_stream(fcb); ++i)
            k += (int)feat_stream_len(fcb, i);
        int64_t bad_vals = 0, n = 0;
        for (int f = 0; f < am->n_feat_frame; ++f) {
            int idx = (am->feat_outidx + f) % am->n_feat_alloc;
            const mfcc_t *v = am->feat_buf[idx][0];
            for (int q = 0; q < k; ++q, ++n)
                if (!std::isfinite((double)v[q]))
                    bad_vals++;
        }
        out.checks++;
        out.probes["c18.feature_values_checked"] += n;
        if (bad_vals)
            viol("C18", "features_finite", "dynamic_features", std::to_string(bad_vals) + " of " + std::to_string(n) + " dynamic-feature values are not finite", opi);
        // channel-normalisation state: finite, and export/import is a fixpoint at text level
        const char *c1 = decoder_get_cmn(s.d, 0);
        std::string s1 = c1 ? c1 : "";
        if (s1.find("nan") != std::string::npos || s1.find("inf") != std::string::npos)
            viol("C18", "cmn_finite", "text", "channel-normalisation state is not finite: " + s1, opi);
        // the exported text is the state in force: the means the feature module subtracts right now (public struct), to the
        // six digits the text carries - at any instant, also inside an utterance after the live window has shifted
        {
            cmn_t *cs = fcb->cmn_struct;
            const char *p = s1.c_str();
            out.checks++;
            for (int i = 0; cs && i < cs->veclen; ++i) {
                char *e;
                double x = strtod(p, &e);
                if (e == p)
                    break;
                double m = (double)cs->cmn_mean[i];
                if (std::isfinite(m) && !(std::fabs(x - m) <= 2e-3 + 2e-5 * std::fabs(m))) {
                    viol("C18", "cmn_text_is_state", s.in_utt ? "inside_utterance" : "between_utterances", "exported CMN value " + std::to_string(i) + " reads " + std::to_string(x) +
                             " while the mean in force is " + std::to_string(m), opi);
                    break;
                }
                p = *e == ',' ? e + 1 : e;
            }
        }
        if (!s.in_utt) {
            decoder_set_cmn(s.d, s1.c_str());
            const char *c2 = decoder_get_cmn(s.d, 0);
            std::string s2 = c2 ? c2 : "";
            out.checks++;
            if (s1 != s2)
                viol("C18", "cmn_roundtrip", "fixpoint", "CMN exported as '" + s1 + "' re-imports as '" + s2 + "'", opi);
            // "re-imported to the same values" includes the accumulators behind the means: recomputing the means from
            // them must give the imported values back (up to float rounding of x * window / window and 6 printed digits)
            const char *c3 = decoder_get_cmn(s.d, 1);
            std::string s3 = c3 ? c3 : "";
            auto nums = [](const std::string &t) {
                std::vector<double> v;
                const char *p = t.c_str();
                while (*p) {
                    char *e;
                    double x = strtod(p, &e);
                    if (e == p)
                        break;
                    v.push_back(x);
                    p = *e == ',' ? e + 1 : e;
                }
                return v;
            };
            std::vector<double> a = nums(s1), b = nums(s3);
            out.checks++;
            bool same = a.size() == b.size();
            size_t wi = 0;
            for (; same && wi < a.size(); ++wi)
                if (!(std::fabs(a[wi] - b[wi]) <= 1e-3 + 1e-4 * std::fabs(a[wi]))) {
                    same = false;
                    break;
                }
            if (!same)
                viol("C18", "cmn_roundtrip", "after_update", "CMN imported as '" + s1 + "' reads '" + s3 + "' once the means are recomputed from the imported state (value " + std::to_string(wi) + ")", opi);
            out.probes["c18.cmn_roundtrips"]++;
        }
    }
    void c18_cepstra(DecState &s, int opi, int variant = -1)
    {
        // cepstra of the whole clip through the decoder's own front end configuration (a second fe_t: the decoder's is busy);
        // variant >= 0: through another front-end configuration (the models force noise removal on and the rest to their
        // training values; the property speaks of every front-end configuration), chosen by the bits of `variant`
        fe_t *fe = nullptr;
        if (variant < 0)
            fe = fe_init(s.d->config);
        else {
            config_t *c = config_init(NULL);
            config_set_bool(c, "remove_noise", (variant & 1) != 0);
            config_set_bool(c, "remove_dc", (variant & 2) != 0);
            config_set_bool(c, "logspec", (variant & 12) == 12);
            config_set_str(c, "transform", (variant & 16) ? "dct" : "legacy");
            config_set_int(c, "lifter", (variant & 32) ? 22 : 0);
            // dense filterbanks: above some 44 filters at 8 kHz / 59 at 16 kHz two edges of a filter round to one DFT point
            static const int nf[] = { 40, 60, 90, 120 };
            config_set_int(c, "nfilt", nf[(variant >> 6) & 3]);
            if (variant & 256) {
                config_set_int(c, "samprate", 8000);
                config_set_float(c, "upperf", 3500.0);
            }
            if (variant & 512)
                config_set_float(c, "lowerf", 20.0);
            config_set_bool(c, "dither", 0);
            fe = fe_init(c);
            config_free(c);
            out.probes["c18.fe_variant"]++;
        }
        if (!fe)
            return;
        int dim = fe_get_output_size(fe);
        size_t N = s.clip.size();
        int cap = (int)(N / (size_t)std::max(1, H)) + 3;
        mfcc_t **buf = (mfcc_t **)ckd_calloc_2d((size_t)cap, (size_t)dim, sizeof(mfcc_t));
        int total = 0;
        if (s.f32 && s.fgain != 1.0) {
            std::vector<float> f(N);
            for (size_t i = 0; i < N; ++i)
                f[i] = (float)s.clip[i] / 32768.0f * (float)s.fgain;
            float32 *p = f.data();
            size_t n = N;
            while (n > 0 && total < cap) {
                int r2 = fe_process_float32(fe, &p, &n, buf + total, cap - total);
                if (r2 < 0)
                    break;
                total += r2;
            }
        } else {
            std::vector<int16_t> c = s.clip;
            int16 *p = c.data();
            size_t n = N;
            while (n > 0 && total < cap) {
                int r2 = fe_process_int16(fe, &p, &n, buf + total, cap - total);
                if (r2 < 0)
                    break;
                total += r2;
            }
        }
        if (total < cap)
            total += fe_end(fe, buf + total, cap - total);
        int64_t bad_vals = 0;
        for (int f = 0; f < total; ++f)
            for (int q = 0; q < dim; ++q)
                if (!std::isfinite((double)buf[f][q]))
                    bad_vals++;
        out.checks++;
        out.probes["c18.cepstral_values_checked"] += (int64_t)total * dim;
        if (bad_vals)
            viol("C18", "features_finite", variant < 0 ? "cepstra" : "cepstra_other_fe_config",
                 std::to_string(bad_vals) + " cepstral values are not finite" + (variant < 0 ? std::string() : " (front end with remove_noise=" + std::to_string(variant & 1) + " remove_dc=" +
                     std::to_string((variant >> 1) & 1) + " logspec=" + std::to_string((variant & 12) == 12) + " nfilt=" + std::to_string(40 + 0 * variant + (((variant >> 6) & 3) == 0 ? 0 : ((variant >> 6) & 3) == 1 ? 20 : ((variant >> 6) & 3) == 2 ? 50 : 80)) +
                     (variant & 256 ? " samprate=8000" : "") + ")"), opi);
        ckd_free_2d(buf);
        fe_free(fe);
    }
    void c18_scores(DecState &s, const Rec &r, int opi)
    {
        // path score: no wrap-around (UBSan signed-integer-overflow is armed in this build), above the floor, and a
        // probability (<= 0 in the log domain) when no penalty exceeds one
        if (r.score_set) {
            out.checks++;
            if (r.score > 0)
                viol("C18", "path_score_range", "positive", "path score " + std::to_string(r.score) + " is positive", opi);
            if (r.score <= WORST_SCORE)
                viol("C18", "path_score_range", "at_floor", "path score " + std::to_string(r.score) + " is at or below the floor", opi);
        }
        // senone scores of every frame, second pass over the buffered features the way the aligner does it; only
        // with compallsen: otherwise inactive entries hold stale values by construction
        acmod_t *am = s.d->acmod;
        if (!am->compallsen && am->grow_feat) {
            c18_scores_active_sets(s, opi);
            return;
        }
        if (!am->compallsen || !am->grow_feat)
            return;
        int total = am->output_frame;
        if (acmod_rewind(am) < 0)
            return;
        int nsen = bin_mdef_n_sen(am->mdef);
        int64_t frames = 0;
        while (am->output_frame < total) {
            int fi = am->output_frame;
            const int16 *sc = acmod_score(am, &fi);
            if (!sc)
                break;
            int mn = 32767 + 1, mx = -1, neg = 0;
            for (int i = 0; i < nsen; ++i) {
                if (sc[i] < 0)
                    neg++;
                mn = std::min<int>(mn, sc[i]);
                mx = std::max<int>(mx, sc[i]);
            }
            out.checks++;
            if (neg)
                viol("C18", "senone_score_range", "negative", "frame " + std::to_string(fi) + ": " + std::to_string(neg) + " senone scores are negative (16-bit wrap)", opi);
            else if (mn != 0)
                viol("C18", "senone_score_range", "best_not_zero", "frame " + std::to_string(fi) + ": best senone score is " + std::to_string(mn) + ", not 0", opi);
            acmod_advance(am);
            frames++;
            if (!out.violations.empty())
                break;
        }
        while (am->output_frame < total)
            acmod_advance(am);
        out.probes["c18.frames_senone_checked"] += frames;
    }

    // Without compallsen only the REQUESTED senones are scored: a second pass over the buffered features in which each frame
    // is scored for a small seeded set of senones, and (after moving on) scored once more, as a past frame, for another
    // set - what a search that re-visits a frame does.  Every requested score is in range and the best of them is 0.
    void c18_scores_active_sets(DecState &s, int opi)
    {
        acmod_t *am = s.d->acmod;
        int total = am->output_frame;
        if (total <= 0 || acmod_rewind(am) < 0)
            return;
        int nsen = bin_mdef_n_sen(am->mdef);
        Rng pr(fnv1a(std::to_string(s.clip.size()) + "/sets/" + std::to_string(opi)));
        int64_t frames = 0;
        auto score_set = [&](int frame, const char *which) {
            std::vector<int> req;
            int k = 1 + (int)pr.below(6);
            acmod_clear_active(am);
            for (int q = 0; q < k; ++q) {
                int sen = (int)pr.below((uint64_t)nsen);
                acmod_activate_sen(am, sen);
                req.push_back(sen);
            }
            int fi = frame;
            const int16 *sc = acmod_score(am, &fi);
            if (!sc)
                return;
            // what was actually scored: the decoder's own active list (deltas in 8 bits: a gap of more than 255 puts
            // stepping-stone senones on the list, so it is a superset of what was asked for)
            std::vector<int> scored;
            for (int q = 0, last = 0; q < am->n_senone_active; ++q) {
                last += am->senone_active[q];
                scored.push_back(last);
            }
            for (int sen : req)
                if (std::find(scored.begin(), scored.end(), sen) == scored.end())
                    viol("C18", "senone_score_range", std::string("not_scored_") + which, "frame " + std::to_string(frame) + ": requested senone " + std::to_string(sen) + " is not on the active list", opi);
            int mn = 32768, neg = 0;
            for (int sen : scored) {
                if (sc[sen] < 0)
                    neg++;
                mn = std::min<int>(mn, sc[sen]);
            }
            out.checks++;
            if (neg)
                viol("C18", "senone_score_range", std::string("negative_") + which, "frame " + std::to_string(frame) + ": " + std::to_string(neg) + " of the scored senones are negative (16-bit wrap)", opi);
            else if (mn != 0)
                viol("C18", "senone_score_range", std::string("best_not_zero_") + which, "frame " + std::to_string(frame) + ": best of the scored senones is " + std::to_string(mn) + ", not 0", opi);
        };
        while (am->output_frame < total) {
            int f = am->output_frame;
            if (f % 5 == 0 || f + 1 == total) {
                score_set(f, "current");
                acmod_advance(am);
                score_set(f, "past");
                frames++;
            } else
                acmod_advance(am);
            if (!out.violations.empty())
                break;
        }
        while (am->output_frame < total)
            acmod_advance(am);
        acmod_clear_active(am);
        out.probes["c18.frames_scored_for_seeded_sets"] += frames;
    }

    // ---- ops
    // Lattice construction costs about a quarter of a millisecond per word exit in the search history, several times
    // over (232 000 exits in 226 frames - a looping grammar without insertion penalties - took 55 s per lattice):
    // performance is outside what these properties say, so lattices are requested only up to a fixed number of word
    // exits, a quantity that is itself part of the deterministic execution
    bool lattice_affordable(DecState &s)
    {
        if (!s.d->search)
            return true;
        int n = fsg_history_n_entries(((fsg_search_t *)s.d->search)->history);
        if (n <= 25000)
            return true;
        out.probes["lat.skipped_too_many_word_exits"]++;
        return false;
    }
    bool load_grammar(DecState &s, const Json &g, int opi)
    {
        const std::string &kind = g.gets("kind");
        const std::string &text = g.gets("text");
        int rv = -1;
        if (kind == "jsgf")
            rv = decoder_set_jsgf_string(s.d, text.c_str());
        else if (kind == "align")
            rv = decoder_set_align_text(s.d, text.c_str());
        else {
            // exact-size copy: the reader must not look past the text
            char *buf = (char *)malloc(text.size() ? text.size() : 1);
            memcpy(buf, text.data(), text.size());
            s3file_t *f = s3file_init(buf, text.size());
            fsg_model_t *fsg = fsg_model_read_s3file(f, s.d->lmath, (float32)config_float(s.d->config, "lw"));
            s3file_free(f);
            free(buf);
            if (fsg)
                rv = decoder_set_fsg(s.d, fsg); // consumes fsg on success and on failure
        }
        out.events.i64(rv);
        if (rv == 0) {
            s.has_grammar = true;
            // ... and with pruning disabled: under any beam the first pass may have lost the best state sequence inside a
            // word that the (unpruned) aligner finds, so the two scores differ by construction
            s.scores_commensurable = config_float(s.d->config, "wip") == 1.0 && config_float(s.d->config, "pip") == 1.0 && config_float(s.d->config, "beam") == 0.0 &&
                config_float(s.d->config, "pbeam") == 0.0 && config_float(s.d->config, "wbeam") == 0.0 && config_int(s.d->config, "maxhmmpf") == -1;
            s.nfa = Nfa::from_json(g["nfa"]);
            s.gkind = kind;
            out.probes["dec.grammar_loaded." + kind]++;
            // C16: "numbered alternates are ... usable immediately in grammars": every alternate the reference map knows
            // for a word of this grammar must be in the loaded grammar's vocabulary (alternates are added at load time
            // unless fsgusealtpron is off)
            if (profile == "C16" && config_bool(s.d->config, "fsgusealtpron") && s.d->search) {
                fsg_model_t *fsg = ((fsg_search_t *)s.d->search)->fsg;
                std::set<std::string> labels;
                for (auto &a : s.nfa.arcs)
                    if (!a.label.empty())
                        labels.insert(a.label);
                out.checks++;
                for (auto &w : labels) {
                    auto it = s.alt_model.find(w);
                    if (it == s.alt_model.end() || fsg_model_word_id(fsg, w.c_str()) < 0)
                        continue;
                    for (auto &alt : it->second)
                        if (fsg_model_word_id(fsg, alt.c_str()) < 0) {
                            viol("C16", "alternates_usable_in_grammar", "missing", "grammar with the word '" + w + "' was loaded but its alternate '" + alt + "' is not in the search vocabulary", opi);
                            break;
                        }
                    out.probes["dict.alternates_in_grammar_checked"]++;
                }
            }
        } else
            out.probes["dec.grammar_refused." + kind]++;
        return rv == 0;
    }

    void feed_call(DecState &s, size_t len, bool ns, bool full, int opi)
    {
        if (len > s.clip.size() - s.fed)
            len = s.clip.size() - s.fed;
        int rv;
        // a decoder configured for big-endian input gets its samples in that byte order
        const char *ie = config_str(s.d->config, "input_endian");
        const bool be = ie && strcmp(ie, "big") == 0;
        if (be)
            out.probes["dec.big_endian_feed"]++;
        if (s.f32) {
            float *heap = (float *)malloc(sizeof(float) * (len ? len : 1));
            for (size_t i = 0; i < len; ++i)
                heap[i] = (float)s.clip[s.fed + i] / 32768.0f * (float)s.fgain;
            if (be)
                for (size_t i = 0; i < len; ++i) {
                    unsigned char *b = (unsigned char *)&heap[i];
                    std::swap(b[0], b[3]);
                    std::swap(b[1], b[2]);
                }
            rv = decoder_process_float32(s.d, heap, len, ns, full);
            free(heap);
        } else {
            int16_t *heap = (int16_t *)malloc(sizeof(int16_t) * (len ? len : 1));
            memcpy(heap, s.clip.data() + s.fed, sizeof(int16_t) * len);
            if (be)
                for (size_t i = 0; i < len; ++i)
                    heap[i] = (int16_t)((((uint16_t)heap[i]) >> 8) | (((uint16_t)heap[i]) << 8));
            rv = decoder_process_int16(s.d, heap, len, ns, full);
            free(heap);
        }
        s.fed += len;
        s.n_calls++;
        out.events.i64(rv);
        if (rv < 0)
            viol("C03", "frame_conservation", "process_error", "decoder_process returned " + std::to_string(rv), opi);
        else
            s.searched += rv;
        if (ns)
            out.faults["sched.buffered_chunk"]++;
    }

    void do_query(DecState &s, const Json &op, bool final, int opi)
    {
        const std::string what = op.gets("what", "rec");
        s.n_queries++;
        if (what == "hyp") {
            int32 sc;
            const char *h = decoder_hyp(s.d, &sc);
            out.events.str(h ? h : "(null)");
        } else if (what == "seg_part") {
            int k = (int)op.geti("k", 1);
            seg_iter_t *it = decoder_seg_iter(s.d);
            for (int i = 0; it && i < k; ++i)
                it = seg_iter_next(it);
            if (it)
                seg_iter_free(it);
            out.probes["dec.seg_iter_abandoned"]++;
        } else if ((what == "lattice" || what == "nbest" || what == "post") && !lattice_affordable(s)) {
            Rec r = capture(s.d);
            check_record(s, r, final, opi);
        } else if (what == "lattice" || what == "nbest" || what == "post") {
            Rec r = capture(s.d);
            lattice_t *dag = decoder_lattice(s.d);
            Lat L = capture_lattice(dag);
            out.events.str(L.canon());
            out.probes[L.null ? "lat.null" : "lat.built"]++;
            if (!final && !L.null)
                out.probes["lat.mid_utterance"]++;
            check_record(s, r, final, opi);
            check_lattice(s, L, r, opi);
            // asking again without new audio returns the same object
            lattice_t *again = decoder_lattice(s.d);
            out.checks++;
            if (again != dag)
                viol("C11", "cache_identity", "second_request", "a second decoder_lattice() without new audio returned a different object", opi);
            // ... also when the earlier request was made before decoder_end_utt and the end added no frame; the earlier
            // object is kept alive by a reference of our own, so that a rebuilt lattice cannot land on its address.  The
            // reference is sometimes carried into the next utterance (the documented way to keep a lattice).
            if (profile == "C11" || profile == "C12") {
                if (s.kept_dag && s.kept_utt == s.utt_serial && dag && dag->n_frames == s.kept_frames && dag != s.kept_dag)
                    viol("C11", "cache_identity", "across_end_utt", "decoder_lattice() for the same " + std::to_string(dag->n_frames) +
                             " frames of one utterance returned another object than before", opi);
                if (s.kept_dag && (s.kept_utt != s.utt_serial || (dag && dag->n_frames != s.kept_frames))) {
                    lattice_free(s.kept_dag);
                    s.kept_dag = nullptr;
                    out.probes["lat.retained_reference_released"]++;
                }
                if (!s.kept_dag && dag) {
                    s.kept_dag = lattice_retain(dag);
                    s.kept_frames = dag->n_frames;
                    s.kept_utt = s.utt_serial;
                }
            }
            if (what == "nbest" && dag)
                check_nbest(s, L, (int)op.geti("k", 5), op.getb("abandon"), opi);
            if (what == "post" && dag)
                check_posteriors(s, dag, L, opi);
        } else if (what == "c18") {
            c18_features(s, opi);
        } else if (what == "json") {
            check_json(s, op, final, opi);
        } else if (what == "align") {
            if (!final)
                s.align_mid_utt = true;
            Rec r = capture(s.d);
            capture_alignment(s.d, r);
            out.events.str(r.to_json(true).dump());
            check_record(s, r, final, opi);
            check_alignment(s, r, opi);
            if (r.align_null)
                s.align_failed_at_frame = r.n_frames;
            else if (s.align_failed_at_frame == r.n_frames)
                out.probes["align.second_call_after_failure"]++;
            out.probes[r.align_null ? "dec.alignment_null" : "dec.alignment_ok"]++;
        } else {
            Rec r = capture(s.d);
            out.events.str(r.to_json(false).dump());
            check_record(s, r, final, opi);
        }
    }

    void end_utt(DecState &s, const Json &op, int opi)
    {
        if (!s.in_utt)
            return;
        if (s.fed < s.clip.size())
            feed_call(s, s.clip.size() - s.fed, false, false, opi); // whatever a (minimised) plan did not feed
        int before = decoder_n_frames(s.d);
        int rv = decoder_end_utt(s.d);
        int after = decoder_n_frames(s.d);
        if (s.probe && !quiet && s.d->acmod->fcb->bufpos == 0)
            out.probes["c08.probe_ended_at_ring_wrap"]++;
        out.events.i64(rv);
        s.in_utt = false;
        s.searched += after - before;
        int64_t F = frames_for((int64_t)s.clip.size(), S, H);
        out.checks++;
        if (rv >= 0 && s.searched != F)
            viol("C03", "frame_conservation", "count", "frames searched " + std::to_string(s.searched) + " (process returns + end_utt) != frames the front end produces for " +
                     std::to_string(s.clip.size()) + " samples: " + std::to_string(F), opi);
        out.sim_seconds += (double)s.clip.size() / 16000.0;
        Rec r = capture(s.d);
        bool want_align = op.getb("align", false) || s.probe;
        if (want_align) {
            capture_alignment(s.d, r);
            check_alignment(s, r, opi);
        }
        if (profile == "C18") {
            c18_cepstra(s, opi);
            c18_cepstra(s, opi, (int)(fnv1a(std::to_string(s.clip.size()) + "/" + std::to_string(opi)) & 1023));
            c18_features(s, opi);
            c18_scores(s, r, opi);
        }
        Json rj = r.to_json(true);
        if (s.probe && profile == "C08") {
            // C08 compares the lattice and the first N-best entries too
            lattice_t *dag = lattice_affordable(s) ? decoder_lattice(s.d) : nullptr;
            rj.set("lattice", capture_lattice(dag).canon());
            Json nb = Json::array();
            if (dag) {
                hyp_iter_t *it = decoder_nbest(s.d);
                for (int n = 0; it && n < 10; ++n) {
                    int32 sc = 0;
                    const char *h = hyp_iter_hyp(it, &sc);
                    Json e = Json::array();
                    e.push(h ? h : "");
                    e.push((long long)sc);
                    nb.push(e);
                    it = hyp_iter_next(it);
                }
                if (it)
                    hyp_iter_free(it);
            }
            rj.set("nbest", nb);
        }
        out.events.str(rj.dump());
        check_record(s, r, true, opi);
        if (r.n_frames - 1 != (int)F && rv >= 0)
            out.other["dec.n_frames_minus_one_differs"]++;
        out.trace.i64(r.seg_null ? 0 : 1);
        out.trace.i64(std::min<int64_t>(s.n_calls, 6));
        out.trace.i64(std::min<int64_t>(s.n_queries, 3));
        if (s.probe && !quiet && !s.probe_comparable)
            out.probes["dec.probe_not_comparable"]++;
        if (s.probe && (quiet || s.probe_comparable)) {
            if (quiet) {
                probe_record = rj;
            } else {
                auto it = reference.find(s.probe_id);
                if (it != reference.end()) {
                    out.checks++;
                    compare_probe(s, rj, it->second, opi);
                }
            }
        }
    }

    void compare_probe(DecState &s, const Json &got, const Json &want, int opi)
    {
        const char *prop = profile == "C08" ? "C08" : "C07";
        bool align_both = !got["align"].is_null() && !want["align"].is_null();
        Json g = got, w = want;
        if (!align_both) { // alignment legitimately unavailable on one side (circular buffer rewound): compare only when both have one
            g.erase("align");
            w.erase("align");
        }
        if (g.dump() == w.dump()) {
            out.probes["dec.probe_equal"]++;
            return;
        }
        // name the first differing field
        std::string field = "record";
        for (const char *k : { "n_frames", "hyp", "score", "segs", "align", "lattice", "nbest" })
            if (g[k].dump() != w[k].dump()) {
                field = k;
                break;
            }
        std::string a = g[field].dump(), b = w[field].dump();
        if (getenv("VERIF_FULL_DETAIL"))
            fprintf(stdout, "FULL-DETAIL got  %s\nFULL-DETAIL want %s\n", a.c_str(), b.c_str());
        if (a.size() > 220) a = a.substr(0, 220) + "...";
        if (b.size() > 220) b = b.substr(0, 220) + "...";
        std::string trig = profile == "C08" ? "history" : (s.sched_noncanonical ? "schedule" : "repeat");
        // known finding: with Gaussian selection on every n-th frame only (ds > 1) an alignment requested before the end
        // of the utterance leaves the scorer's top-N history in the aligner's state; named by its cause, not by the field
        // that happens to differ first, so that it is one class and every other schedule dependence stays visible
        if (profile != "C08" && s.align_mid_utt && config_int(s.d->config, "ds") > 1)
            field = "ds>1+alignment_before_end";
        viol(prop, profile == "C08" ? "isolation" : "schedule_invariance", trig + ":" + field,
             field + " differs from the pristine canonical execution: " + a + " vs " + b, opi);
    }

    void run_ops(const std::vector<const Json *> &ops, const std::vector<int> &index)
    {
        for (size_t k = 0; k < ops.size(); ++k) {
            const Json &op = *ops[k];
            int opi = index[k];
            if (!quiet)
                ctx.at(opi);
            size_t di = (size_t)op.geti("d", 0) % ds.size();
            DecState &s = ds[di];
            const std::string &o = op.gets("op");
            if (!quiet) {
                out.trace.str(o);
                out.trace.i64((int64_t)di);
            }
            out.events.str(o);
            if (o == "knobs") {
                if (s.in_utt) // a minimised plan may have lost the end op: close the utterance rather than skip
                    end_utt(s, Json::object(), opi);
                for (auto &kv : op["set"].o) {
                    if (kv.second.t == Json::BOOL)
                        config_set_bool(s.d->config, kv.first.c_str(), kv.second.b);
                    else if (kv.first == "maxhmmpf")
                        config_set_int(s.d->config, kv.first.c_str(), (long)kv.second.dbl());
                    else
                        config_set_float(s.d->config, kv.first.c_str(), kv.second.dbl());
                }
            } else if (o == "grammar") {
                if (s.in_utt)
                    end_utt(s, Json::object(), opi);
                load_grammar(s, op["g"], opi);
            } else if (o == "add_word") {
                if (s.in_utt && !op.getb("in_utt"))
                    end_utt(s, Json::object(), opi);
                if (profile == "C16")
                    do_add_word(s, op, opi);
                else {
                    int rv = decoder_add_word(s.d, op.gets("word").c_str(), op.gets("phones").c_str(), op.getb("update", true));
                    out.events.i64(rv);
                    out.probes[rv >= 0 ? "dict.word_added" : "dict.add_refused"]++;
                }
            } else if (o == "bulk_add") {
                // growth past the preallocated table: many plain additions without search update
                if (s.in_utt)
                    end_utt(s, Json::object(), opi);
                dict_sample_old(s);
                int n = (int)op.geti("n", 4200);
                const Lang &L = lang(lang_of(s.tmpl));
                Rng br((uint64_t)op.geti("seed", 1));
                int before = dict_size(s.d->dict);
                for (int k = 0; k < n; ++k) {
                    std::string w = "bulk" + std::to_string(k) + "x";
                    std::string ph = br.pick(L.phones) + " " + br.pick(L.phones);
                    if (decoder_add_word(s.d, w.c_str(), ph.c_str(), 0) < 0) {
                        viol("C16", "valid_add_accepted", "bulk", "bulk addition " + std::to_string(k) + " was refused", opi);
                        break;
                    }
                    if (k % 997 == 0) {
                        s.dict_model[w] = ph;
                        s.alt_model[w] = {};
                    }
                }
                if (before / 4096 != dict_size(s.d->dict) / 4096 || dict_size(s.d->dict) > 4096)
                    out.probes["dict.realloc"]++;
                dict_check_all(s, opi, "after bulk additions");
            } else if (o == "lookup") {
                dict_sample_old(s);
                dict_touch(s, op.gets("word"));
                dict_check_all(s, opi, "lookup");
                out.probes["dict.lookup"]++;
            } else if (o == "frate") {
                if (s.in_utt)
                    end_utt(s, Json::object(), opi);
                config_set_int(s.d->config, "frate", (long)op.geti("frate", 100));
                int rv = decoder_reinit_feat(s.d, NULL);
                out.events.i64(rv);
                int sh = 0, sz = 0;
                fe_get_input_size(decoder_fe(s.d), &sh, &sz);
                S = sz;
                H = sh;
            } else if (o == "ring_pad") {
                // history chosen so that the probe that follows ENDS exactly where the live feature ring wraps (its write
                // position, never reset between utterances, back at 0): a streamed filler utterance of the right length.
                // Positions are read from the decoder (public struct), lengths follow from them: nothing is assumed
                // about where the template left the ring.
                if (s.in_utt)
                    end_utt(s, Json::object(), opi);
                if (!s.has_grammar || quiet)
                    continue;
                feat_t *fcb = s.d->acmod->fcb;
                const int ring = 256, win = feat_window_size(fcb);
                int64_t Fp = frames_for(op.geti("probe_n"), S, H) + op.geti("delta", 0);
                int64_t Fpad = (((-(int64_t)fcb->bufpos - 2 * win - Fp) % ring) + ring) % ring;
                if (Fpad < 8)
                    Fpad += ring;
                std::vector<int16_t> pad((size_t)(S + (Fpad - 2) * H)); // Fpad - 1 whole windows and the trailing frame
                uint32_t x = 12345u + (uint32_t)Fpad;
                for (auto &v : pad) {
                    x = x * 1103515245u + 12345u;
                    v = (int16_t)((int)((x >> 16) & 0x3ff) - 512);
                }
                if (frames_for((int64_t)pad.size(), S, H) == Fpad && decoder_start_utt(s.d) == 0) {
                    decoder_process_int16(s.d, pad.data(), pad.size(), FALSE, FALSE);
                    decoder_end_utt(s.d);
                    out.probes["c08.ring_pad_utterance"]++;
                    out.events.i64((int64_t)fcb->bufpos);
                }
            } else if (o == "begin") {
                if (s.in_utt)
                    end_utt(s, Json::object(), opi);
                if (!s.has_grammar)
                    continue;
                if (op.has("grow") && !op["grow"].is_null())
                    acmod_set_grow(s.d->acmod, op["grow"].truthy());
                if (op.has("cmn") && op["cmn"].t == Json::STR)
                    decoder_set_cmn(s.d, op["cmn"].s.c_str());
                s.clip = audio::render(op["sig"], quiet ? nullptr : &out.faults);
                s.fed = 0;
                s.f32 = op.gets("enc") == "f32";
                s.fgain = op.getd("fgain", 1.0);
                s.searched = 0;
                s.n_queries = s.n_calls = 0;
                s.sched_noncanonical = false;
                s.align_mid_utt = false;
                s.probe = op.getb("probe");
                s.probe_id = (int)op.geti("probe_id", -1);
                // a probe is comparable with the fresh-decoder reference only from a defined normalisation state: set from
                // text here, or a whole-utterance (batch) feed below; a minimised plan that lost both is not a probe any more
                s.probe_comparable = op.has("cmn") && op["cmn"].t == Json::STR;
                s.utt_serial++;
                int rv = decoder_start_utt(s.d);
                out.events.i64(rv);
                s.in_utt = rv == 0;
                s.nfr_start = decoder_n_frames(s.d);
            } else if (o == "feed") {
                if (!s.in_utt)
                    continue;
                int64_t rep = std::max<int64_t>(1, op.geti("rep", 1));
                bool ns = op.getb("ns"), full = op.getb("full");
                if (full && s.fed > 0)
                    full = false; // full-utterance processing is only legal as the single call of an utterance
                if (full)
                    s.probe_comparable = true;
                for (int64_t q = 0; q < rep && s.fed < s.clip.size(); ++q)
                    feed_call(s, full ? s.clip.size() : (size_t)std::max<int64_t>(1, op.geti("len", 1)), ns, full, opi);
                if (rep > 1 || ns || s.f32)
                    s.sched_noncanonical = true;
            } else if (o == "query") {
                if (!s.has_grammar)
                    continue;
                if (s.in_utt)
                    s.sched_noncanonical = true;
                do_query(s, op, !s.in_utt && s.ended_once, opi);
            } else if (o == "end") {
                if (!s.in_utt)
                    continue;
                if (s.n_calls != 1)
                    s.sched_noncanonical = true;
                end_utt(s, op, opi);
                s.ended_once = true;
            }
            if (!quiet && !out.violations.empty())
                break;
        }
    }

    // canonical plan of a probe utterance: persistent state of that decoder + one-call schedule
    // grammar ops on the probe's decoder before the probe, in plan order
    static std::vector<int> grammar_candidates(const Json &plan, size_t begin_idx, size_t ndec)
    {
        const auto &ops = plan["ops"].a;
        size_t d = (size_t)ops[begin_idx].geti("d", 0) % ndec;
        std::vector<int> g;
        for (size_t i = 0; i < begin_idx; ++i)
            if (ops[i].gets("op") == "grammar" && (size_t)ops[i].geti("d", 0) % ndec == d)
                g.push_back((int)i);
        return g;
    }
    static std::vector<Json> canonical_ops(const Json &plan, size_t begin_idx, size_t ndec, int last_g)
    {
        const auto &ops = plan["ops"].a;
        const Json &b = ops[begin_idx];
        size_t d = (size_t)b.geti("d", 0) % ndec;
        std::vector<Json> c;
        for (size_t i = 0; i < begin_idx; ++i) {
            const Json &o = ops[i];
            if ((size_t)o.geti("d", 0) % ndec != d)
                continue;
            const std::string &k = o.gets("op");
            if (o.getb("prelude")) { // C07: part of the decoder state both executions start the probe from
                Json o2 = o;
                o2.set("d", 0);
                c.push_back(o2);
            } else if ((k == "knobs" && (int)i < last_g) || k == "add_word" || (int)i == last_g) {
                Json o2 = o;
                o2.set("d", 0);
                c.push_back(o2);
            } else if (k == "knobs" && o["set"].has("maxhmmpf")) {
                // (the search reads beams and penalties when a grammar is loaded, but maxhmmpf from the configuration in
                // every frame: a change made after the grammar load is in force for the probe)
                Json o2 = Json::object(), only = Json::object();
                only.set("maxhmmpf", o["set"]["maxhmmpf"]);
                o2.set("op", "knobs");
                o2.set("set", only);
                o2.set("d", 0);
                c.push_back(o2);
            }
        }
        Json bb = b;
        bb.set("d", 0);
        bb.set("enc", "i16");
        bb.erase("grow");
        c.push_back(bb);
        // the probe's own feeds decide only whether it is a full-utterance (batch) decode
        bool full = false;
        for (size_t i = begin_idx + 1; i < ops.size(); ++i) {
            const Json &o = ops[i];
            if ((size_t)o.geti("d", 0) % ndec != d)
                continue;
            if (o.gets("op") == "feed") {
                full = o.getb("full");
                break;
            }
            if (o.gets("op") == "end" || o.gets("op") == "begin")
                break;
        }
        Json f = Json::object();
        f.set("op", "feed");
        f.set("d", 0);
        f.set("len", (long long)100000000);
        f.set("full", full);
        c.push_back(f);
        Json e = Json::object();
        e.set("op", "end");
        e.set("d", 0);
        c.push_back(e);
        return c;
    }
};

// C08, "on a freshly created decoder": a decoder slot of the plan may be CREATED inside the run, with configuration
// overrides (the frequency-warping options, which the bundled models leave to the user), after a creation history of
// front ends made and freed with other configurations.  The reference sibling creates the same decoder with no history.
static decoder_t *make_created(const std::string &tmpl, const Json &over)
{
    config_t *c = make_config(tmpl);
    for (auto &kv : over.o)
        config_set_str(c, kv.first.c_str(), kv.second.s.c_str());
    return decoder_init(c); // consumes c
}
static void run_precreate(const Json &plan, Outcome &out)
{
    if (!plan.has("precreate"))
        return;
    for (auto &cfg : plan["precreate"].a) {
        config_t *c = config_init(NULL);
        for (auto &kv : cfg.o)
            config_set_str(c, kv.first.c_str(), kv.second.s.c_str());
        fe_t *fe = fe_init(c);
        fe_free(fe);
        config_free(c);
        out.probes["c08.front_end_created_and_freed_before"]++;
    }
}
static decoder_t *slot_decoder(const Json &plan, size_t d, const std::string &tmpl)
{
    const Json &dj = plan["decs"].a[d];
    if (dj.has("create"))
        return make_created(tmpl, dj["create"]);
    return nullptr;
}

// Computes the reference record of one probe in a pristine sibling (a fork of the still untouched run process).
// returns 1 = record in result, 0 = the grammar was refused (try an earlier one), -1 = the sibling died
static int reference_in_sibling(const Ctx &ctx, const Json &plan, size_t begin_idx, const std::string &tmpl, size_t slot, int gi, Json &result)
{
    int pfd[2];
    if (pipe(pfd) != 0)
        return -1;
    fflush(stdout);
    pid_t pid = fork();
    if (pid < 0)
        return -1;
    if (pid == 0) {
        close(pfd[0]);
        watchdog_arm(60); // processor-time limit of the reference sibling (see kernel.cc)
        Outcome dummy;
        Ctx c2 = ctx;
        c2.out = &dummy;
        c2.cur_op = nullptr;
        c2.note = nullptr;
        Exec x(c2, plan);
        x.quiet = true;
        DecState s;
        s.tmpl = tmpl;
        s.d = slot_decoder(plan, slot, tmpl);
        if (!s.d)
            s.d = g_t.pool[tmpl][0];
        x.ds.push_back(s);
        std::vector<Json> c = Exec::canonical_ops(plan, begin_idx, plan["decs"].a.size(), gi);
        std::vector<const Json *> ptr;
        std::vector<int> idx;
        for (auto &o : c) {
            ptr.push_back(&o);
            idx.push_back(-3);
        }
        x.run_ops(ptr, idx);
        std::string s2 = x.ds[0].has_grammar ? x.probe_record.dump() : std::string("\"REFUSED\"");
        size_t off = 0;
        while (off < s2.size()) {
            ssize_t n = write(pfd[1], s2.data() + off, s2.size() - off);
            if (n <= 0)
                break;
            off += (size_t)n;
        }
        _exit(0);
    }
    close(pfd[1]);
    std::string s;
    char buf[65536];
    for (;;) {
        ssize_t n = read(pfd[0], buf, sizeof buf);
        if (n < 0 && errno == EINTR)
            continue;
        if (n <= 0)
            break;
        s.append(buf, (size_t)n);
    }
    close(pfd[0]);
    int st = 0;
    while (waitpid(pid, &st, 0) < 0 && errno == EINTR) {}
    if (!(WIFEXITED(st) && WEXITSTATUS(st) == 0))
        return -1;
    if (!Json::parse(s, result))
        return -1;
    if (result.t == Json::STR && result.s == "REFUSED")
        return 0;
    return 1;
}

// ---------------------------------------------------------------- plan generation helpers
struct Gen {
    Rng &r;
    Json ops = Json::array();
    int next_probe = 0;
    bool allow_align = true; // alignment requests belong to C04/C07/C08/C09, not to C01/C03
    bool align_heavy = false; // C04: most queries are alignment requests, often repeated; wip=pip=1 in half of the runs

    Json knobs()
    {
        Json k = Json::object();
        static const std::vector<double> beams = { 1e-48, 1e-48, 1e-80, 1e-30, 1e-20, 1e-10 };
        static const std::vector<double> wbeams = { 7e-29, 7e-29, 1e-60, 1e-15, 1e-8 };
        if (r.chance(0.6)) {
            double b = r.pick(beams);
            k.set("beam", b);
            k.set("pbeam", r.chance(0.7) ? b : r.pick(beams));
            // (lattice construction is quadratic in the number of word exits: the lattice profiles keep the word beam at
            // its default or narrower, performance being outside what simulation decides)
            k.set("wbeam", lat_rate > 0.5 || builds_lattices ? r.pick(std::vector<double> { 7e-29, 7e-29, 1e-15, 1e-8 }) : r.pick(wbeams));
        }
        if (!align_heavy && r.chance(0.15)) // adaptive beam narrowing: a cap on active HMMs per frame, down to absurdly small
            k.set("maxhmmpf", (double)r.pick(std::vector<int> { 1, 2, 5, 20, 100, 1000 }));
        if (r.chance(0.3))
            k.set("fsgusefiller", r.chance(0.5));
        if (r.chance(0.3))
            k.set("fsgusealtpron", r.chance(0.5));
        if (r.chance(align_heavy ? 0.6 : 0.25)) {
            k.set("wip", 1.0);
            k.set("pip", 1.0);
            if (align_heavy && r.chance(0.8)) { // no pruning at all: the setting in which C04's score clause is well defined
                k.set("beam", 0.0);
                k.set("pbeam", 0.0);
                k.set("wbeam", 0.0);
                k.set("maxhmmpf", -1.0);
            }
        }
        return k;
    }
    void push(Json op, int d)
    {
        op.set("d", d);
        ops.push(op);
    }
    void add_knobs(int d)
    {
        Json k = knobs();
        if (k.o.empty())
            return;
        Json op = Json::object();
        op.set("op", "knobs");
        op.set("set", k);
        push(op, d);
    }
    Json clip(const std::string &lng, int maxn, bool hostile_ok, std::vector<std::string> *prefer)
    {
        std::string rec;
        if (r.chance(0.75)) {
            if (lng == "fr")
                rec = r.chance(0.8) ? "goforward_fr" : "goforward";
            else
                rec = r.chance(0.7) ? "goforward" : (r.chance(0.7) ? "pizza" : "goforward_fr");
        }
        Json sig = audio::random_spec(r, maxn, hostile_ok && r.chance(0.3), rec);
        if (!rec.empty()) {
            const auto &v = audio::recording(rec);
            // mostly the utterance from its beginning (so that it can match a grammar), sometimes cut in mid-word
            // (a budget beyond 3 s means: play the recording twice in a row, the channel wraps around)
            int64_t n = std::min<int64_t>((int64_t)v.size() * (maxn > 50000 ? 2 : 1), maxn);
            if (r.chance(0.6)) {
                sig.set("off", 0);
                sig.set("n", (long long)(r.chance(0.6) ? n : r.range(n / 4, n)));
            } else if (r.chance(0.5)) {
                int64_t off = (int64_t)r.below(v.size() / 2);
                sig.set("off", (long long)off);
                sig.set("n", (long long)std::min<int64_t>(maxn, (int64_t)v.size() - off));
            }
            if (prefer && sig.geti("off") == 0 && !sig.getb("rev"))
                *prefer = prefer_words(rec);
        }
        if (sig.geti("n") > maxn)
            sig.set("n", maxn);
        return sig;
    }
    void add_grammar(int d, const std::string &lng, const std::vector<std::string> &prefer)
    {
        Json op = Json::object();
        op.set("op", "grammar");
        op.set("g", grammar::gen_any(r, lang(lng).vocab, lng == "en" || !prefer.empty() ? prefer : std::vector<std::string> {}));
        // the fixed repository grammars are English
        if (lng != "en" && op["g"]["feat"].dump().find("repo:") != std::string::npos)
            op.set("g", grammar::gen_fsg(r, lang(lng).vocab));
        push(op, d);
    }
    double json_rate = 0.0; // C14: share of queries that ask for the JSON result
    int64_t min_samples = 0; // lower bound on the next utterances' length (0: none)
    bool after_prelude = false; // C07: the probe follows a whole-utterance prelude (see the C07 profile)
    bool builds_lattices = false; // C08: the probe's lattice is compared, so the word beam stays at its default or narrower as in C11/C12
    double lat_rate = 0.0; // C11/C12 (and C08's probe): share of queries that are lattice / N-best / posterior requests
    Json query(bool allow_align)
    {
        Json q = Json::object();
        q.set("op", "query");
        if (r.chance(json_rate)) {
            q.set("what", "json");
            q.set("level", (long long)r.weighted({ 40, 30, 30 }));
            q.set("start", r.pick(std::vector<double> { 0.0, 0.0, 1.5, 1e6, -2.0, 0.0005 }));
            return q;
        }
        if (r.chance(lat_rate)) {
            switch (r.weighted({ 45, 30, 25 })) {
            case 0: q.set("what", "lattice"); break;
            case 1:
                q.set("what", "nbest");
                q.set("k", (long long)r.range(1, 12));
                q.set("abandon", r.chance(0.4));
                break;
            default: q.set("what", "post");
            }
            return q;
        }
        switch (r.weighted({ align_heavy ? 15 : 50, align_heavy ? 5 : 15, align_heavy ? 5 : 15, allow_align ? (align_heavy ? 75 : 20) : 0 })) {
        case 0: q.set("what", "rec"); break;
        case 1: q.set("what", "hyp"); break;
        case 2:
            q.set("what", "seg_part");
            q.set("k", (long long)r.below(4));
            break;
        default: q.set("what", "align");
        }
        return q;
    }
    // schedule of feeds (and interleaved queries) for an utterance of N samples
    Json last_sig = Json::object();
    bool last_full = false, force_repeat = false, force_end_align = false;
    std::string last_lng;
    std::vector<std::string> last_prefer;
    void schedule(int d, int64_t N, bool canonical, bool full, double qrate, bool allow_align, bool allow_ns)
    {
        if (full || canonical) {
            Json f = Json::object();
            f.set("op", "feed");
            f.set("len", (long long)std::max<int64_t>(N, 1));
            f.set("full", full);
            if (full && !canonical && r.chance(0.3))
                f.set("ns", true); // whole utterance buffered in one call, searched inside end_utt
            if (full && r.chance(qrate))
                push(query(false), d);
            push(f, d);
            // a partial-result request between the (single) feed call and end_utt: no frame is searched in between
            if (r.chance(full ? 0.5 : qrate))
                push(query(allow_align && (!full || align_heavy)), d);
            return;
        }
        int style = (int)r.below(8);
        if (after_prelude && r.chance(0.5))
            style = 8;
        int64_t left = N;
        int items = 0;
        bool first = true;
        double ns_rate = allow_ns ? (r.chance(0.3) ? 1.0 : r.chance(0.5) ? 0.3 : 0.0) : 0.0;
        while (left > 0 && items < 40) {
            int64_t len, rep = 1;
            switch (style) {
            case 0: // single samples first
                if (first) { len = 1; rep = r.range(1, 3000); } else len = r.range(1, 8000);
                break;
            case 1: // first chunk shorter than one analysis window
                len = first ? r.range(1, 409) : r.pick(std::vector<int> { 160, 410, 2048, 4096 });
                if (!first) rep = r.range(1, 10);
                break;
            case 2: len = 410; rep = r.range(1, 40); break;
            case 3: len = 160; rep = r.range(1, 60); break;
            case 4: len = 2048; rep = r.range(1, 6); break;
            case 5: len = r.range(1, 12000); break;
            case 8: // after a prelude the cepstrum buffer holds 254-300 frames, the feature module's block 256: pieces that
                    // carry 248-260 frames, the first of them either at once or after a short one
                len = first && r.chance(0.5) ? r.range(1, 3000) : r.range(248, 260) * 160 + r.range(0, 159);
                break;
            case 6: // a short piece, then pieces far longer than the internal cepstrum buffer (128 frames)
                len = first ? r.range(1, 6000) : r.range(20000, 60000);
                break;
            default: len = r.chance(0.2) ? r.range(1, 50) : r.range(100, 6000); rep = r.chance(0.3) ? r.range(1, 8) : 1;
            }
            if (items == 39) { len = left; rep = 1; }
            if (len * rep > left)
                rep = std::max<int64_t>(1, left / len);
            if (len > left)
                len = left;
            Json f = Json::object();
            f.set("op", "feed");
            f.set("len", (long long)len);
            if (rep > 1)
                f.set("rep", (long long)rep);
            if (r.chance(ns_rate))
                f.set("ns", true);
            push(f, d);
            left -= len * rep;
            items++;
            first = false;
            if (r.chance(qrate)) {
                push(query(allow_align), d);
                if (align_heavy && r.chance(0.4))
                    push(query(allow_align), d); // again, without new audio
            }
        }
    }
    std::string cmn_text(const std::string &tmpl)
    {
        // a text, so that both executions hold the identical floats
        const std::string &base = g_t.cmn0[tmpl];
        if (r.chance(0.2)) // the short documented form: the values not listed are zero, whatever the decoder did before
            return r.chance(0.5) ? "40,3,-1" : "55,-2";
        if (r.chance(0.5) || base.empty())
            return base.empty() ? "40,0,0,0,0,0,0,0,0,0,0,0,0" : base;
        std::string t;
        int n = 13;
        for (int i = 0; i < n; ++i) {
            char b[32];
            snprintf(b, sizeof b, "%s%.2f", i ? "," : "", i == 0 ? (double)r.range(20, 70) : (double)r.range(-300, 300) / 100.0);
            t += b;
        }
        return t;
    }
    // a whole utterance on decoder d: [knobs] [grammar] begin, schedule, end
    void utterance(int d, const std::string &tmpl, bool new_grammar, bool probe, bool canonical, bool full, int maxn, double qrate, bool tiny_ok, bool set_cmn)
    {
        std::string lng = lang_of(tmpl);
        std::vector<std::string> prefer;
        bool force_align = false;
        Json sig = clip(lng, maxn, true, &prefer);
        // the same audio again under another grammar or text (a corrected transcript): same frame count, other result
        // ... or other audio of exactly the same length under the same grammar: same frame count, other result
        if (align_heavy && !last_sig.o.empty() && last_lng == lng && (force_repeat || r.chance(0.35))) {
            if (!force_repeat && r.chance(0.5)) {
                sig = last_sig;
                prefer = last_prefer;
                new_grammar = true;
            } else {
                sig.set("n", last_sig.geti("n"));
                new_grammar = false;
                full = last_full; // same way of feeding: the frame counts then agree before end_utt as well
                force_align = true;
            }
        }
        last_full = full;
        if (min_samples > 0 && sig.geti("n") < min_samples) // (the channel wraps around: a recording plays on from its start)
            sig.set("n", (long long)(min_samples + (int64_t)r.below(7000)));
        last_sig = sig;
        last_lng = lng;
        last_prefer = prefer;
        if (tiny_ok && r.chance(0.25))
            sig.set("n", (long long)r.pick(std::vector<int> { 0, 1, 100, 409, 410, 411, 569, 570, 571, 730, 1000, 1210 }));
        if (new_grammar) {
            if (r.chance(0.6))
                add_knobs(d);
            add_grammar(d, lng, prefer);
        }
        Json b = Json::object();
        b.set("op", "begin");
        b.set("sig", sig);
        b.set("enc", !canonical && r.chance(0.3) ? "f32" : "i16");
        if (set_cmn)
            b.set("cmn", cmn_text(tmpl));
        if (probe) {
            b.set("probe", true);
            b.set("probe_id", next_probe++);
        }
        if (!canonical && !full && r.chance(0.35))
            b.set("grow", r.chance(0.5));
        push(b, d);
        schedule(d, sig.geti("n"), canonical, full, qrate, allow_align, !canonical);
        if (force_align && allow_align) {
            Json q = Json::object();
            q.set("op", "query");
            q.set("what", "align");
            push(q, d);
        }
        Json e = Json::object();
        e.set("op", "end");
        if (allow_align && (force_end_align || r.chance(0.3)))
            e.set("align", true);
        push(e, d);
        if (r.chance(0.3))
            push(query(allow_align), d);
    }
};

static const char *pick_tmpl(Rng &r)
{
    switch (r.weighted({ 50, 22, 18, 10 })) {
    case 0: return "en";
    case 1: return "enc";
    case 2: return "fr";
    default: return "enx";
    }
}

struct DecWorld : World {
    const char *name() const override { return "dec"; }
    std::vector<std::string> properties() const override { return { "C01", "C03", "C04", "C07", "C08", "C11", "C12", "C14", "C16", "C18" }; }
    int64_t default_runs(const std::string &p, int tier) const override
    {
        if (p == "C07" || p == "C08")
            return p == "C08" ? (tier ? 30000 : 600) : (tier ? 40000 : 900);
        if (p == "C04")
            return tier ? 50000 : 1000;
        if (p == "C11" || p == "C12")
            return tier ? 50000 : 1200;
        if (p == "C14")
            return tier ? 50000 : 1200;
        if (p == "C16")
            return tier ? 50000 : 1400;
        if (p == "C18")
            return tier ? 8000 : 500;
        if (p == "C01")
            return tier ? 80000 : 2400;
        return tier ? 60000 : 1600;
    }
    int watchdog_s(const std::string &p) const override { return p == "C18" ? 360 : 120; } // (C18 thorough decodes 4-minute streams)
    void setup(const std::string &p, int) override { build_template(p); }
    std::string rule(const std::string &p) const override
    {
        std::string common = "one run = a forked copy of a per-worker template process holding initialised decoders (en-us, en-us compallsen, fr-fr; small dictionaries served by the "
                             "simulated file store) executing one seeded plan of whole API calls issued by logical producer/observer/mutator tasks: beam and filler/alternate knobs, "
                             "generated grammars (FSG text, JSGF from an AST, alignment text; each with an independent reference automaton), audio from the simulated channel "
                             "(recording excerpts, cut mid-word, reversed, synthesis, injected dropouts/clipping/DC/impulses/bursts), feed calls cut by the plan (down to single samples, "
                             "first chunk shorter than a window, buffered no_search chunks, int16/float32, grow/circular feature buffer), result queries between calls. ";
        if (p == "C07")
            return common + "C07: the scheduled execution's final record (hypothesis, score, every segment field, frame count, three alignment levels) must equal the record of the "
                            "canonical one-call execution computed in a pristine sibling process, CMN state fixed by text at the start. Non-trivial: the probe utterance produced a "
                            "segmentation and its schedule differs from the canonical one; distinct = distinct plan digest";
        if (p == "C08")
            return common + "C08: 2-3 decoders with 1-5 earlier utterances each (any grammar/audio/mode/outcome), interleaved call by call, then a probe utterance (decoded twice) whose "
                            "record must equal that of a pristine sibling process. Non-trivial: the probed decoder had at least one earlier utterance and the probe produced a "
                            "segmentation; distinct = distinct plan digest";
        if (p == "C18")
            return common + "C18 (built with UBSan signed-integer-overflow and float-cast-overflow armed in the library): the hostile channel - digital silence, full-scale square waves, "
                            "impulses, DC +-30000, white noise at several levels, alternating silence/noise, speech with dropouts/clipping/bursts, float input scaled up to 1e6 times full "
                            "scale, and a long-stream profile (quick: 30 s, thorough: 4 min in 0.1 s chunks) - over 2-6 utterances on one decoder with the CMN state carried and "
                            "exported/imported between them. Oracle: every cepstral value (a second fe_t with the decoder's configuration) and every dynamic-feature value (public feature "
                            "buffer under no_search feeding) finite; CMN text finite and set(get()) a fixpoint at text level; with compallsen every senone score of every frame in "
                            "[0,32767] with best = 0 (second scoring pass over the buffered features); path score <= 0 and above the floor; no signed overflow anywhere (UBSan). "
                            "Non-trivial: cepstra were checked and senone scores or a CMN round trip too; distinct = distinct plan digest";
        if (p == "C16")
            return common + "C16: histories of decoder_add_word (new words, numbered alternates of new and existing words, duplicates, unknown phone, alternate without base, empty word, "
                            "empty/blank pronunciation, 1- to 12-phone words, 4200 bulk additions to cross the table growth) interleaved with lookups, grammar loads and alignment texts using "
                            "the new words and short utterances. A reference map spelling -> (pronunciation, alternates per base) is stepped in lock-step: expected accept/reject from the "
                            "property text, lookups, ids, base links, alternate chains walked through the public dict_t, dictionary size, 24 sampled pre-existing words keep id and "
                            "pronunciation; after a rejected add everything touched so far must be unchanged. Non-trivial: at least one accepted addition and one later lookup or decode; "
                            "distinct = distinct plan digest";
        if (p == "C14")
            return common + "C14: decoder_result_json(d, start, level) is requested at plan-chosen instants (before any utterance, right after start_utt, on filler-only and partial "
                            "results, after end_utt) with level 0/1/2, start offsets {0, 1.5, 1e6, -2, 0.0005} and frame rates {50, 100, 125} (decoder_reinit_feat); word spellings with quotes, "
                            "backslashes, control bytes and non-ASCII UTF-8 are added through decoder_add_word and forced into results by alignment texts. Oracle: a strict RFC 8259 validator "
                            "(one object + exactly one newline), strlen+1 = allocation size, and field-by-field agreement (printed to the same three decimals) with hypothesis, segmentation "
                            "and alignment read at the same instant. Non-trivial: at least one JSON text was validated and compared; distinct = distinct plan digest";
        if (p == "C11")
            return common + "C11: decoder_lattice is requested at plan-chosen instants (mid-utterance, after the end, twice without new audio; narrow beams and truncated audio so that the "
                            "best path misses the final state). Checked on every lattice: single start/end, every node on a start-to-end path, acyclic (Kahn), every link joins an end frame in "
                            "the source's range to a node starting on the next frame inside the utterance (for the zero-length <s>/</s> connector nodes: successor starts at 0 / predecessor "
                            "ends at the last frame), the labels along ANY path form a path of the reference automaton (product construction in topological order), the first-best "
                            "segmentation is a lattice path, second request returns the same object. Non-trivial: at least one non-NULL lattice was checked; distinct = distinct plan digest";
        if (p == "C12")
            return common + "C12: N-best iterators consumed to a plan-chosen length (and abandoned or run dry), on lattices taken at plan-chosen instants: scores non-increasing, each entry the "
                            "word sequence of a start-to-end lattice path and its node walk follows links; lattice_bestpath score = independent longest-path DP; after lattice_posterior every "
                            "link posterior and the best-path posterior <= 1 within the log-add rounding bound, forward total = backward total. Non-trivial: at least one N-best entry or one "
                            "posterior computation was checked; distinct = distinct plan digest";
        if (p == "C04")
            return common + "C04: decoder_alignment is requested at plan-chosen points (mid-utterance on partial results, twice in a row, again after more audio, after end_utt; grow and "
                            "circular buffering; compallsen and default scoring; wip=pip=1 in most runs). Every non-NULL alignment is checked: words = dictionary words of the segmentation "
                            "read at the same instant (names, start frames, durations), phones = dictionary pronunciation (decoder_lookup_word), states = emitting states of the model, children "
                            "partition parents with positive durations, levels contiguous from frame 0, parent score = sum of children, and (only with compallsen and wip=pip=1, where the two "
                            "passes are commensurable) word score = first-pass acoustic score. Non-trivial: at least one non-NULL alignment was checked; distinct = distinct plan digest";
        return common + "C01/C03: every partial and final record is checked against the tiling / hypothesis / score-sum / frame-conservation rules and against prefix- resp. full "
                        "acceptance by the reference automaton. Non-trivial: at least one record with a non-empty segmentation was checked; distinct = distinct plan digest";
    }
    Json components(const std::string &) const override
    {
        Json j = Json::object();
        Json real = Json::array();
        for (const char *f : { "src/decoder.c", "src/acmod.c", "src/feat.c", "src/cmn*.c", "src/fe_*.c", "src/fsg_search.c", "src/fsg_history.c", "src/fsg_lextree.c", "src/fsg_model.c",
                               "src/jsgf*.c", "src/dict*.c", "src/hmm.c", "src/ptm_mgau.c", "src/ms_*.c", "src/state_align_search.c", "src/ps_alignment.c", "src/bin_mdef.c", "src/tmat.c",
                               "src/s3file.c", "bundled acoustic models en-us and fr-fr" })
            real.push(f);
        j.set("real", real);
        Json stub = Json::array();
        stub.push("mmio_file_* -> in-memory file store (exact-size heap images; small dictionaries exist only there)");
        stub.push("profiling timers not simulated (their values are never compared or logged)");
        j.set("stub", stub);
        j.set("model", "reference automaton per generated grammar; pristine sibling process of the same build as reference decoder; independent frame-count formula");
        return j;
    }
    std::vector<std::string> assumptions(const std::string &p) const override
    {
        std::vector<std::string> a = { "dither off; -logfn unused", "borrowed pointers and iterators are used only until the next mutating call on that decoder" };
        if (p == "C07" || p == "C08")
            a.push_back("compared utterances are <= 46000 samples (290 frames) and start with decoder_set_cmn(text), the restriction the property itself states; full-utterance decodes form their own class");
        return a;
    }

    Json generate(const std::string &prop, uint64_t seed, int tier) override
    {
        Rng r(seed);
        Json plan = Json::object();
        plan.set("world", "dec");
        plan.set("profile", prop);
        Gen g { r };
        Json decs = Json::array();
        auto add_dec = [&](const std::string &t) {
            Json d = Json::object();
            d.set("tmpl", t);
            decs.push(d);
        };
        if (prop == "C07") {
            std::string t = pick_tmpl(r);
            add_dec(t);
            if (r.chance(0.12)) { // a decoder created for big-endian input (made the same way in the reference execution)
                Json c = Json::object();
                c.set("input_endian", "big");
                decs.a[0].set("create", c);
            }
            bool full = r.chance(0.08);
            if (r.chance(0.25)) {
                // prelude: an earlier whole-utterance decode, long enough to enlarge the decoder's cepstrum buffer beyond the
                // feature module's block for the rest of its life; made identically in the reference execution, so the
                // probe after it is still compared under "same decoder state, other chunking"
                Json g0 = Json::object();
                g0.set("op", "grammar");
                g0.set("g", grammar::gen_align(r, lang(lang_of(t)).vocab, {}));
                g0.set("prelude", true);
                g.push(g0, 0);
                Json b = Json::object();
                b.set("op", "begin");
                Json sig = audio::random_spec(r, 48000, false, lang_of(t) == "fr" ? "goforward_fr" : "goforward");
                sig.set("off", 0);
                sig.set("n", (long long)r.range(40600, 48000));
                b.set("sig", sig);
                b.set("enc", "i16");
                b.set("prelude", true);
                g.push(b, 0);
                Json f = Json::object();
                f.set("op", "feed");
                f.set("len", (long long)48000);
                f.set("full", true);
                f.set("prelude", true);
                g.push(f, 0);
                Json e = Json::object();
                e.set("op", "end");
                e.set("prelude", true);
                g.push(e, 0);
                g.after_prelude = true;
            }
            g.utterance(0, t, true, true, false, full, MAX_CMP_SAMPLES, r.chance(0.5) ? 0.3 : 0.0, false, true);
        } else if (prop == "C08") {
            g.builds_lattices = true;
            int nd = (int)r.range(1, 3);
            std::vector<std::string> slots = { "en", "en", "enc", "fr", "enx" }, ts;
            for (size_t i = slots.size(); i > 1; --i)
                std::swap(slots[i - 1], slots[r.below(i)]);
            for (int i = 0; i < nd; ++i) {
                ts.push_back(slots[(size_t)i]);
                add_dec(slots[(size_t)i]);
            }
            // per-decoder scripts, then interleave them call by call
            std::vector<Json> scripts;
            int probe_d = (int)r.below((uint64_t)nd);
            bool full_class = r.chance(0.2);
            for (int d = 0; d < nd; ++d) {
                Gen gd { r };
                gd.next_probe = 0;
                int hist = (int)r.range(d == probe_d ? 1 : 0, 4);
                if (d == probe_d && r.chance(0.15)) {
                    // the whole life of the probe decoder under a cap of a few active HMMs per frame: every utterance then
                    // ends with its beams narrowed to almost nothing, the state the next one must not inherit
                    Json k = Json::object();
                    k.set("maxhmmpf", (double)r.pick(std::vector<int> { 1, 2, 2, 5 }));
                    Json op = Json::object();
                    op.set("op", "knobs");
                    op.set("set", k);
                    gd.push(op, d);
                    if (hist < 2)
                        hist = 2;
                }
                for (int u = 0; u < hist; ++u)
                    gd.utterance(d, ts[(size_t)d], u == 0 || r.chance(0.5), false, r.chance(0.3), r.chance(0.2), 48000, 0.15, true, r.chance(0.3));
                if (d == probe_d) {
                    // the probe: canonical schedule, decoded twice
                    bool newg = r.chance(0.7);
                    size_t before = gd.ops.a.size();
                    // (three probes in ten are long enough for the live normalisation window to shift inside them: the same
                    // calls are made in the reference, so C07's length restriction does not apply here)
                    gd.utterance(d, ts[(size_t)d], newg || hist == 0, true, true, full_class, r.chance(0.3) ? 100000 : MAX_CMP_SAMPLES, 0.0, false, !full_class);
                    // one probe in four is preceded by a filler utterance sized so that the probe ends where the live
                    // feature ring wraps (or one frame off)
                    if (!full_class && r.chance(0.25)) {
                        for (size_t i = before; i < gd.ops.a.size(); ++i)
                            if (gd.ops.a[i].gets("op") == "begin") {
                                Json rp = Json::object();
                                rp.set("op", "ring_pad");
                                rp.set("probe_n", gd.ops.a[i]["sig"].geti("n"));
                                rp.set("delta", (long long)r.pick(std::vector<int> { 0, 0, 0, 0, -1, 1 }));
                                rp.set("d", d);
                                gd.ops.a.insert(gd.ops.a.begin() + (long)i, rp);
                                break;
                            }
                    }
                    // second decode of the same utterance: copy begin..end
                    std::vector<Json> again;
                    for (size_t i = before; i < gd.ops.a.size(); ++i) {
                        const std::string &k = gd.ops.a[i].gets("op");
                        if (k == "begin" || k == "feed" || k == "end")
                            again.push_back(gd.ops.a[i]);
                    }
                    for (auto &o : again)
                        gd.ops.push(o);
                }
                scripts.push_back(gd.ops);
            }
            std::vector<size_t> pos((size_t)nd, 0);
            for (;;) {
                std::vector<int> live;
                for (int d = 0; d < nd; ++d)
                    if (pos[(size_t)d] < scripts[(size_t)d].a.size())
                        live.push_back(d);
                if (live.empty())
                    break;
                int d = live[r.below(live.size())];
                int burst = (int)r.range(1, 4);
                for (int k = 0; k < burst && pos[(size_t)d] < scripts[(size_t)d].a.size(); ++k)
                    g.ops.push(scripts[(size_t)d].a[pos[(size_t)d]++]);
            }
            // creation histories: a quarter of the plans create their decoders inside the run, with frequency-warping
            // options from a small pool (so that equal and different settings follow each other), after 0-3 front ends
            // made and freed with other settings from the same pool
            if (r.chance(0.25)) {
                static const std::vector<std::vector<std::string>> warps = {
                    {}, {}, { "inverse_linear", "1.3" }, { "inverse_linear", "0.9" }, { "affine", "1.1 40" }, { "affine", "0.94 -25" },
                    { "piecewise_linear", "1.15 3000" }, { "piecewise_linear", "0.9 2800" }, { "inverse_linear", "" }
                };
                auto cfg_of = [&](const std::vector<std::string> &w) {
                    Json c = Json::object();
                    if (r.chance(0.25))
                        c.set("input_endian", "big");
                    if (!w.empty()) {
                        c.set("warp_type", w[0]);
                        if (!w[1].empty())
                            c.set("warp_params", w[1]);
                    }
                    return c;
                };
                // one setting is the run's favourite: it comes back after others were used
                std::vector<std::string> fav = warps[2 + r.below(warps.size() - 3)];
                Json pre = Json::array();
                int np = (int)r.range(0, 3);
                for (int i = 0; i < np; ++i)
                    pre.push(cfg_of(r.chance(0.4) ? fav : r.pick(warps)));
                if (np)
                    plan.set("precreate", pre);
                for (size_t d = 0; d < decs.a.size(); ++d)
                    if ((int)d == probe_d || r.chance(0.6))
                        decs.a[d].set("create", cfg_of((int)d == probe_d && r.chance(0.7) ? fav : r.pick(warps)));
            }
        } else if (prop == "C04") {
            // alignment requests everywhere: mid-utterance, twice in a row, after more audio, after the end
            std::string t = r.chance(0.55) ? "enc" : pick_tmpl(r);
            add_dec(t);
            g.align_heavy = true;
            int nu = (int)r.weighted({ 0, 65, 30, 5 });
            for (int u = 0; u < nu; ++u)
                g.utterance(0, t, u == 0 || r.chance(0.5), false, r.chance(0.2), r.chance(0.1), 48000, r.chance(0.8) ? 0.4 : 0.1, r.chance(0.2), r.chance(0.3));
            if (r.chance(0.12)) {
                // twin utterances: whole-utterance feeds of the same length under one grammar, the first aligned after its
                // end, the second before its end (any alignment kept from the first has the right frame count and the wrong content)
                g.force_end_align = true;
                g.utterance(0, t, true, false, false, true, 48000, 0.0, false, false);
                g.force_end_align = false;
                g.force_repeat = true;
                g.utterance(0, t, false, false, false, true, 48000, 0.0, false, false);
                g.force_repeat = false;
            }
        } else if (prop == "C18") {
            // the hostile channel, CMN carried across 3-6 utterances and exported/imported between them
            std::string t = r.chance(0.6) ? "enc" : pick_tmpl(r);
            if (r.chance(0.15))
                t = "env";
            add_dec(t);
            g.allow_align = false;
            std::string lng = lang_of(t);
            // a small looping grammar so that long streams stay cheap
            {
                Json go = Json::object();
                go.set("op", "grammar");
                go.set("g", r.chance(0.5) ? grammar::gen_align(r, lang(lng).vocab, prefer_words(lng == "en" ? "goforward" : "goforward_fr")) : grammar::gen_fsg(r, lang(lng).vocab));
                g.push(go, 0);
            }
            int nu = (int)r.range(2, tier ? 6 : 4);
            bool long_stream = r.chance(tier ? 0.15 : 0.05);
            for (int u = 0; u < nu; ++u) {
                int maxn = long_stream && u == 0 ? (tier ? 16000 * 240 : 16000 * 30) : 48000;
                Json sig = audio::random_spec(r, maxn, true, r.chance(0.2) ? (lng == "en" ? "goforward" : "goforward_fr") : "");
                if (long_stream && u == 0)
                    sig.set("n", maxn);
                else if (sig.geti("n") > 48000)
                    sig.set("n", 48000);
                // the extremes the property names
                if (r.chance(0.4)) {
                    switch (r.below(6)) {
                    case 0: sig.set("src", "silence"); break;
                    case 1: sig.set("src", "square"); sig.set("period", (long long)r.range(2, 64)); break;
                    case 2: sig.set("src", "impulse"); sig.set("period", (long long)r.range(1, 20000)); break;
                    case 3: sig.set("src", "dc"); sig.set("amp", r.chance(0.5) ? 30000 : -30000); break;
                    case 4: sig.set("src", "noise"); sig.set("amp", r.pick(std::vector<int> { 1, 100, 32767 })); break;
                    default: sig.set("src", "altern"); sig.set("period", (long long)r.range(160, 16000));
                    }
                    sig.erase("off");
                }
                Json b = Json::object();
                b.set("op", "begin");
                b.set("sig", sig);
                bool f32 = r.chance(0.35);
                b.set("enc", f32 ? "f32" : "i16");
                if (f32 && r.chance(0.5))
                    b.set("fgain", r.pick(std::vector<double> { 1.0, 4.0, 100.0, 1e6 }));
                g.push(b, 0);
                int64_t left = sig.geti("n");
                bool buffered = r.chance(0.5); // buffer everything first (features readable), search in end_utt
                int64_t chunk = long_stream && u == 0 ? 1600 : r.pick(std::vector<int> { 160, 1600, 8000, 48000 });
                Json f = Json::object();
                f.set("op", "feed");
                f.set("len", (long long)chunk);
                f.set("rep", (long long)std::max<int64_t>(1, left / chunk + 1));
                if (buffered && !(long_stream && u == 0))
                    f.set("ns", true);
                if (!(long_stream && u == 0) && r.chance(0.25)) { // the whole utterance in one call: batch normalisation
                    f.set("len", (long long)std::max<int64_t>(1, left));
                    f.set("rep", 1);
                    f.set("full", true);
                }
                g.push(f, 0);
                if (r.chance(0.5)) {
                    Json q = Json::object();
                    q.set("op", "query");
                    q.set("what", "c18");
                    g.push(q, 0);
                }
                if (r.chance(0.3)) { // path scores of the second pass too (state aligner), mid-utterance
                    Json q = Json::object();
                    q.set("op", "query");
                    q.set("what", "align");
                    g.push(q, 0);
                }
                Json e = Json::object();
                e.set("op", "end");
                if (r.chance(0.4))
                    e.set("align", true);
                g.push(e, 0);
                if (r.chance(0.6)) {
                    Json q = Json::object();
                    q.set("op", "query");
                    q.set("what", "c18"); // CMN export/import between utterances
                    g.push(q, 0);
                }
            }
        } else if (prop == "C16") {
            std::string t = pick_tmpl(r);
            add_dec(t);
            g.allow_align = false;
            const Lang &L = lang(lang_of(t));
            std::vector<std::string> fresh, pool;
            int nf = (int)r.range(2, 6);
            for (int i = 0; i < nf; ++i) {
                std::string w;
                int len = (int)r.range(1, 9);
                for (int k = 0; k < len; ++k)
                    w += (char)('a' + r.below(26));
                fresh.push_back("zq" + w);
            }
            auto pron = [&](int n) {
                std::string p = r.chance(0.06) ? (r.chance(0.5) ? " " : "\t ") : "";
                for (int k = 0; k < n; ++k)
                    p += (k ? (r.chance(0.1) ? "  " : " ") : "") + r.pick(L.phones);
                if (r.chance(0.1)) // blanks after the last phone: one, several, a line end
                    p += r.pick(std::vector<std::string> { " ", "  ", " \n", "\r\n", "\t", "   " });
                return p;
            };
            int nops = (int)r.range(4, 30);
            std::vector<std::string> added;
            if (r.chance(0.03)) {
                Json b = Json::object();
                b.set("op", "bulk_add");
                b.set("n", 4200);
                b.set("seed", (long long)(r.next() & 0xffff));
                g.push(b, 0);
            }
            for (int i = 0; i < nops; ++i) {
                switch (r.weighted({ 30, 14, 8, 8, 5, 4, 4, 12, 8, 7 })) {
                case 0: { // new word
                    Json a = Json::object();
                    a.set("op", "add_word");
                    std::string w = r.pick(fresh);
                    a.set("word", w);
                    a.set("phones", pron((int)r.pick(std::vector<int> { 1, 1, 2, 3, 4, 5, 8, 12 })));
                    a.set("update", r.chance(0.6));
                    g.push(a, 0);
                    added.push_back(w);
                    break;
                }
                case 1: { // numbered alternate of a fresh or existing word
                    Json a = Json::object();
                    a.set("op", "add_word");
                    std::string b = r.chance(0.6) ? r.pick(fresh) : r.pick(L.vocab);
                    std::string w = b + "(" + std::to_string(r.range(2, 5)) + ")";
                    a.set("word", w);
                    a.set("phones", pron((int)r.range(1, 5)));
                    a.set("update", r.chance(0.6));
                    g.push(a, 0);
                    added.push_back(w);
                    break;
                }
                case 2: { // duplicate of something already there (or added earlier in this run)
                    Json a = Json::object();
                    a.set("op", "add_word");
                    a.set("word", !added.empty() && r.chance(0.6) ? r.pick(added) : r.pick(L.vocab));
                    a.set("phones", pron((int)r.range(1, 4)));
                    g.push(a, 0);
                    break;
                }
                case 3: { // unknown phone
                    Json a = Json::object();
                    a.set("op", "add_word");
                    a.set("word", r.pick(fresh) + "u");
                    a.set("phones", pron((int)r.range(0, 3)) + " QQX " + pron((int)r.range(0, 2)));
                    g.push(a, 0);
                    break;
                }
                case 4: { // alternate without base
                    Json a = Json::object();
                    a.set("op", "add_word");
                    a.set("word", "nobase" + std::to_string(r.below(5)) + "(2)");
                    a.set("phones", pron(2));
                    g.push(a, 0);
                    break;
                }
                case 5: { // empty word
                    Json a = Json::object();
                    a.set("op", "add_word");
                    a.set("word", "");
                    a.set("phones", pron(2));
                    g.push(a, 0);
                    break;
                }
                case 6: { // empty or blank pronunciation
                    Json a = Json::object();
                    a.set("op", "add_word");
                    a.set("word", r.pick(fresh) + "e");
                    a.set("phones", r.pick(std::vector<std::string> { "", " ", "  \t " }));
                    g.push(a, 0);
                    break;
                }
                case 7: { // lookup of a touched or old word
                    Json l = Json::object();
                    l.set("op", "lookup");
                    l.set("word", !added.empty() && r.chance(0.5) ? r.pick(added) : (r.chance(0.5) ? r.pick(L.vocab) : r.pick(fresh)));
                    g.push(l, 0);
                    break;
                }
                case 8: { // an utterance whose alignment text uses words added so far (those refused simply make the text fail)
                    std::string text;
                    Nfa a;
                    std::vector<std::string> ws;
                    int nw = (int)r.range(1, 4);
                    for (int k = 0; k < nw; ++k)
                        ws.push_back(!added.empty() && r.chance(0.6) ? r.pick(added) : r.pick(L.vocab));
                    a.n = (int)ws.size() + 1;
                    a.finals = { (int)ws.size() };
                    for (size_t k = 0; k < ws.size(); ++k) {
                        text += (k ? " " : "") + ws[k];
                        a.add((int)k, (int)k + 1, base_of(ws[k]));
                    }
                    Json go = Json::object();
                    go.set("op", "grammar");
                    Json gg = Json::object();
                    gg.set("kind", "align");
                    gg.set("text", text);
                    gg.set("nfa", a.to_json());
                    go.set("g", gg);
                    g.push(go, 0);
                    g.utterance(0, t, false, false, r.chance(0.5), false, 16000, 0.2, false, false);
                    if (r.chance(0.3)) {
                        // an addition INSIDE the utterance (before its end): with update it must be refused as a whole --
                        // dictionary untouched, retry after the end succeeds --, without update it is an ordinary addition
                        Json a2 = Json::object();
                        a2.set("op", "add_word");
                        std::string w = r.pick(fresh);
                        a2.set("word", w);
                        a2.set("phones", pron((int)r.range(1, 5)));
                        a2.set("update", r.chance(0.75));
                        a2.set("in_utt", true);
                        a2.set("d", 0);
                        size_t at = g.ops.a.size();
                        while (at > 0 && g.ops.a[at - 1].gets("op") != "end")
                            --at;
                        if (at > 0) {
                            g.ops.a.insert(g.ops.a.begin() + (long)(at - 1), a2);
                            if (!a2.getb("update"))
                                added.push_back(w);
                            else if (r.chance(0.6)) { // the retry, after the end
                                Json a3 = a2;
                                a3.erase("in_utt");
                                g.ops.a.push_back(a3);
                                added.push_back(w);
                            }
                        }
                    }
                    break;
                }
                default: { // a generated grammar over old and new words
                    std::vector<std::string> voc = L.vocab;
                    for (auto &w : added)
                        if (base_of(w) == w)
                            voc.push_back(w);
                    Json go = Json::object();
                    go.set("op", "grammar");
                    go.set("g", r.chance(0.5) ? grammar::gen_jsgf(r, added.empty() ? L.vocab : std::vector<std::string>(voc.end() - (long)std::min<size_t>(voc.size(), 12), voc.end()))
                                              : grammar::gen_fsg(r, voc));
                    g.push(go, 0);
                    if (r.chance(0.6))
                        g.utterance(0, t, false, false, r.chance(0.5), false, 16000, 0.2, false, false);
                }
                }
            }
        } else if (prop == "C14") {
            std::string t = pick_tmpl(r);
            add_dec(t);
            g.json_rate = 0.85;
            if (r.chance(0.3)) {
                Json fo = Json::object();
                fo.set("op", "frate");
                fo.set("frate", r.pick(std::vector<int> { 50, 125, 100 }));
                g.push(fo, 0);
            }
            // hostile spellings added through the dictionary API and forced into the result by an alignment text
            const Lang &L = lang(lang_of(t));
            bool hostile = r.chance(0.45);
            std::vector<std::string> hw;
            if (hostile) {
                static const std::vector<std::string> bits = { "\"", "\\", "say\"hi\\", "a\"b", "\\n", "\x01", "\x1f", "\xc3\xa9", "\xe2\x82\xac", "caf\xc3\xa9", "{}", "[", "\"}", "\\\"", "tab\\t", "/", "\x7f" };
                int n = (int)r.range(1, 3);
                for (int i = 0; i < n; ++i) {
                    std::string pre = r.pick(L.vocab).substr(0, 3);
                    for (unsigned char ch : pre)
                        if (ch >= 0x80) { // (a cut through a multi-byte character would make the spelling invalid UTF-8)
                            pre = "ab";
                            break;
                        }
                    std::string w = r.chance(0.5) ? r.pick(bits) : pre + r.pick(bits) + (r.chance(0.5) ? r.pick(bits) : "");
                    if (r.chance(0.35)) // every control byte has its own escape: any of 0x01..0x1f (none is white space to the text splitter but 9,10,13,32)
                        w = std::string(1, (char)('a' + r.below(26))) + "q" + std::string(1, (char)r.pick(std::vector<int> { 1, 2, 7, 8, 11, 12, 14, 15, 16, 17, 26, 27, 30, 31 })) + "z"; // (ASCII around it: spellings stay valid UTF-8)
                    std::string ph;
                    int np = (int)(r.chance(0.2) ? r.range(9, 14) : r.range(1, 4)); // long words: many phone and state entries in one word
                    for (int q = 0; q < np; ++q)
                        ph += (q ? " " : "") + r.pick(L.phones);
                    Json ao = Json::object();
                    ao.set("op", "add_word");
                    ao.set("word", w);
                    ao.set("phones", ph);
                    ao.set("update", r.chance(0.7));
                    g.push(ao, 0);
                    hw.push_back(w);
                }
            }
            int nu = (int)r.weighted({ 0, 70, 25, 5 });
            if (r.chance(0.2)) { // JSON before any utterance
                g.add_grammar(0, lang_of(t), {});
                g.push(g.query(true), 0);
            }
            for (int u = 0; u < nu; ++u) {
                if (hostile && r.chance(0.8)) {
                    // alignment text with the hostile words between ordinary ones
                    std::string text;
                    Nfa a;
                    std::vector<std::string> ws;
                    int nw = (int)r.range(1, 4);
                    for (int i = 0; i < nw; ++i)
                        ws.push_back(r.chance(0.5) ? r.pick(hw) : r.pick(L.vocab));
                    ws.insert(ws.begin() + (long)r.below(ws.size() + 1), r.pick(hw));
                    a.n = (int)ws.size() + 1;
                    a.finals = { (int)ws.size() };
                    for (size_t i = 0; i < ws.size(); ++i) {
                        text += (i ? " " : "") + ws[i];
                        a.add((int)i, (int)i + 1, ws[i]);
                    }
                    Json go = Json::object();
                    go.set("op", "grammar");
                    Json gg = Json::object();
                    gg.set("kind", "align");
                    gg.set("text", text);
                    gg.set("nfa", a.to_json());
                    go.set("g", gg);
                    g.push(go, 0);
                    g.utterance(0, t, false, false, r.chance(0.3), r.chance(0.1), 30000, 0.3, r.chance(0.2), r.chance(0.2));
                } else
                    g.utterance(0, t, u == 0 || r.chance(0.5), false, r.chance(0.3), r.chance(0.1), 32000, r.chance(0.7) ? 0.35 : 0.1, r.chance(0.3), r.chance(0.2));
                g.push(g.query(true), 0);
            }
        } else if (prop == "C11" || prop == "C12") {
            std::string t = pick_tmpl(r);
            add_dec(t);
            g.allow_align = false;
            g.lat_rate = 0.85;
            int nu = (int)r.weighted({ 0, 65, 30, 5 });
            for (int u = 0; u < nu; ++u) {
                g.utterance(0, t, u == 0 || r.chance(0.5), false, r.chance(0.25), r.chance(0.1), 32000, r.chance(0.7) ? 0.3 : 0.05, r.chance(0.15), r.chance(0.2));
                // always look at the final lattice too
                g.push(g.query(false), 0);
            }
        } else { // C01, C03
            std::string t = pick_tmpl(r);
            add_dec(t);
            g.allow_align = false;
            grammar::set_convergence_bias(prop == "C01");
            int nu = (int)r.weighted({ 0, 60, 30, 10 });
            if (prop == "C03" && r.chance(0.15)) {
                // a first utterance of more than 256 frames passed as a whole: it enlarges the decoder's cepstrum buffer for good;
                // the following ones are then streamed in pieces of 248-260 frames or in one piece
                g.min_samples = 41200;
                g.utterance(0, t, true, false, false, true, 48000, 0.0, false, r.chance(0.2));
                g.min_samples = r.chance(0.5) ? 40000 : 0;
                g.after_prelude = true;
                nu = std::max(nu, 1);
            }
            for (int u = 0; u < nu; ++u)
                g.utterance(0, t, u == 0 || r.chance(0.6), false, r.chance(0.15), r.chance(0.1), 48000, r.chance(0.7) ? 0.35 : 0.0, prop == "C03" || r.chance(0.3), r.chance(0.2));
            grammar::set_convergence_bias(false);
        }
        plan.set("decs", decs);
        plan.set("ops", g.ops);
        return plan;
    }

    void execute(const Json &plan, const Ctx &ctx) override
    {
        Outcome &out = *ctx.out;
        Exec x(ctx, plan);
        const auto &decs = plan["decs"].a;
        const auto &ops = plan["ops"].a;
        if (decs.empty())
            return;
        // ---- references first, while this process is still a pristine copy of the template
        ctx.at(-3);
        bool any_probe = false;
        for (size_t i = 0; i < ops.size(); ++i) {
            const Json &o = ops[i];
            if (o.gets("op") != "begin" || !o.getb("probe"))
                continue;
            int id = (int)o.geti("probe_id", -1);
            if (x.reference.count(id)) // decoded twice: same reference
                continue;
            size_t ndec = decs.size();
            size_t d = (size_t)o.geti("d", 0) % ndec;
            std::string tmpl = decs[d].gets("tmpl", "en");
            // the grammar active for the probe is the last one the decoder ACCEPTED: try the candidates from the
            // last one backwards, each in its own pristine sibling
            std::vector<int> cand = Exec::grammar_candidates(plan, i, ndec);
            Json ref;
            int got = 0;
            for (size_t q = cand.size(); q > 0 && got == 0; --q) {
                got = reference_in_sibling(ctx, plan, i, tmpl, d, cand[q - 1], ref);
                if (got < 0) {
                    // the canonical execution itself dies: repeat it here so that the kernel sees and classifies the death
                    ctx.set_note("canonical execution");
                    Exec y(ctx, plan);
                    y.quiet = true;
                    DecState s;
                    s.tmpl = tmpl;
                    s.d = slot_decoder(plan, d, tmpl);
                    if (!s.d)
                        s.d = g_t.pool[tmpl][0];
                    y.ds.push_back(s);
                    std::vector<Json> c = Exec::canonical_ops(plan, i, ndec, cand[q - 1]);
                    std::vector<const Json *> ptr;
                    std::vector<int> idx;
                    for (auto &oo : c) {
                        ptr.push_back(&oo);
                        idx.push_back(-3);
                    }
                    y.run_ops(ptr, idx);
                    out.other["dec.reference_failed_but_repeat_survived"]++;
                    return;
                }
            }
            if (got != 1)
                continue; // no grammar was ever accepted: the probe utterance will not start either
            x.reference[id] = ref;
            any_probe = true;
        }
        // ---- bind decoders of the plan to template instances
        std::map<std::string, size_t> used;
        run_precreate(plan, out);
        for (size_t di = 0; di < decs.size(); ++di) {
            const Json &dj = decs[di];
            std::string t = dj.gets("tmpl", "en");
            auto &pool = g_t.pool[t];
            DecState s;
            s.tmpl = t;
            if (dj.has("create")) {
                ctx.set_note("decoder creation");
                s.d = make_created(t, dj["create"]);
                ctx.set_note("");
                out.probes["c08.decoder_created_in_run"]++;
                if (!s.d)
                    return;
                x.ds.push_back(s);
                continue;
            }
            size_t k = used[t]++;
            if (k < pool.size())
                s.d = pool[k];
            else {
                s.d = make_decoder(t);
                out.probes["dec.extra_decoder_created"]++;
            }
            if (!s.d)
                return;
            x.ds.push_back(s);
        }
        {
            int sh = 0, sz = 0;
            fe_get_input_size(decoder_fe(x.ds[0].d), &sh, &sz);
            x.S = sz;
            x.H = sh;
        }
        std::vector<const Json *> ptr;
        std::vector<int> idx;
        for (size_t i = 0; i < ops.size(); ++i) {
            ptr.push_back(&ops[i]);
            idx.push_back((int)i);
        }
        x.run_ops(ptr, idx);
        // utterances left open by minimisation
        for (auto &s : x.ds)
            if (s.in_utt && out.violations.empty())
                x.end_utt(s, Json::object(), (int)ops.size());
        ctx.at((int)ops.size());
        // ---- non-triviality
        const std::string &prop = ctx.property;
        if (prop == "C07")
            out.nontrivial = any_probe && out.probes.count("dec.final_result") && [&] {
                for (auto &s : x.ds)
                    if (s.sched_noncanonical)
                        return true;
                return false;
            }();
        else if (prop == "C08") {
            bool hist = false;
            for (size_t i = 0, seen = 0; i < ops.size(); ++i)
                if (ops[i].gets("op") == "begin") {
                    if (ops[i].getb("probe") && seen > 0)
                        hist = true;
                    seen++;
                }
            out.nontrivial = any_probe && hist && out.probes.count("dec.final_result");
        } else if (prop == "C04")
            out.nontrivial = out.probes.count("align.hierarchy_checked") > 0;
        else if (prop == "C14")
            out.nontrivial = out.probes.count("json.checked") > 0;
        else if (prop == "C18")
            out.nontrivial = out.probes.count("c18.cepstral_values_checked") > 0 && (out.probes.count("c18.frames_senone_checked") > 0 || out.probes.count("c18.cmn_roundtrips") > 0);
        else if (prop == "C16")
            out.nontrivial = out.probes.count("dict.expected_accept") > 0 && (out.probes.count("dict.lookup") > 0 || out.probes.count("dec.final_result") > 0);
        else if (prop == "C11")
            out.nontrivial = out.probes.count("lat.checked") > 0;
        else if (prop == "C12")
            out.nontrivial = out.probes.count("nbest.entries") > 0 || out.probes.count("lat.posteriors_checked") > 0;
        else
            out.nontrivial = out.probes.count("dec.final_result") || out.probes.count("dec.partial_result");
    }

    std::string crash_trigger(const Json &plan, int op, const std::string &note) const override
    {
        if (op == -3)
            return note.empty() ? "reference" : note;
        const auto &ops = plan["ops"].a;
        if (op >= 0 && op < (int)ops.size()) {
            std::string t = ops[(size_t)op].gets("op");
            if (t == "query")
                t += ":" + ops[(size_t)op].gets("what", "rec");
            if (t == "grammar")
                t += ":" + ops[(size_t)op]["g"].gets("kind");
            return t;
        }
        return "-";
    }

    std::vector<Json> simplify(const Json &plan) const override
    {
        std::vector<Json> c;
        const auto &ops = plan["ops"].a;
        auto with = [&](size_t n, const Json &o) {
            Json p = plan;
            Json a = Json::array();
            for (size_t m = 0; m < ops.size(); ++m)
                a.push(m == n ? o : ops[m]);
            p.set("ops", a);
            return p;
        };
        for (size_t n = 0; n < ops.size(); ++n) {
            const Json &o = ops[n];
            const std::string &k = o.gets("op");
            if (k == "begin") {
                int64_t N = o["sig"].geti("n");
                for (int64_t nn : { N / 2, N * 3 / 4, N - 1600 }) {
                    if (nn < 0 || nn >= N)
                        continue;
                    Json o2 = o, s = o["sig"];
                    s.set("n", (long long)nn);
                    o2.set("sig", s);
                    c.push_back(with(n, o2));
                }
                if (o["sig"].has("faults")) {
                    Json o2 = o, s = o["sig"];
                    s.erase("faults");
                    o2.set("sig", s);
                    c.push_back(with(n, o2));
                }
                if (o.gets("enc") == "f32") {
                    Json o2 = o;
                    o2.set("enc", "i16");
                    c.push_back(with(n, o2));
                }
                if (o.has("grow")) {
                    Json o2 = o;
                    o2.erase("grow");
                    c.push_back(with(n, o2));
                }
            } else if (k == "feed") {
                if (o.geti("rep", 1) > 1) {
                    Json o2 = o;
                    o2.set("rep", (long long)(o.geti("rep") / 2));
                    c.push_back(with(n, o2));
                    Json o3 = o;
                    o3.erase("rep");
                    c.push_back(with(n, o3));
                }
                if (o.getb("ns")) {
                    Json o2 = o;
                    o2.erase("ns");
                    c.push_back(with(n, o2));
                }
            } else if (k == "knobs") {
                for (auto &kv : o["set"].o) {
                    Json o2 = o, st = o["set"];
                    st.erase(kv.first);
                    o2.set("set", st);
                    c.push_back(with(n, o2));
                }
            }
        }
        // fewer decoders: drop the last one if no op uses it explicitly
        return c;
    }
};

static DecWorld g_dec;
struct Reg {
    Reg() { register_world(&g_dec); }
} g_reg;

} // namespace
} // namespace sim
