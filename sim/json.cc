// Minimal JSON value: dump and strict parse (used for plans, replay files, result lines, evidence).
#include "kernel.h"
#include <cmath>

namespace sim {

static void dump_str(const std::string &s, std::string &out)
{
    out += '"';
    for (unsigned char c : s) {
        switch (c) {
        case '"': out += "\\\""; break;
        case '\\': out += "\\\\"; break;
        case '\n': out += "\\n"; break;
        case '\r': out += "\\r"; break;
        case '\t': out += "\\t"; break;
        default:
            if (c < 0x20 || c >= 0x7f) { // keep files pure ASCII: bytes >= 0x7f as \u00XX (latin-1 view)
                char b[8];
                snprintf(b, sizeof b, "\\u%04x", c);
                out += b;
            } else
                out += (char)c;
        }
    }
    out += '"';
}

static void dump_rec(const Json &j, std::string &out)
{
    char b[64];
    switch (j.t) {
    case Json::NUL: out += "null"; break;
    case Json::BOOL: out += j.b ? "true" : "false"; break;
    case Json::INT:
        snprintf(b, sizeof b, "%lld", (long long)j.i);
        out += b;
        break;
    case Json::DBL:
        if (!std::isfinite(j.d))
            out += "null";
        else {
            snprintf(b, sizeof b, "%.17g", j.d);
            out += b;
            if (!strpbrk(b, ".eEn"))
                out += ".0";
        }
        break;
    case Json::STR: dump_str(j.s, out); break;
    case Json::ARR:
        out += '[';
        for (size_t n = 0; n < j.a.size(); ++n) {
            if (n)
                out += ',';
            dump_rec(j.a[n], out);
        }
        out += ']';
        break;
    case Json::OBJ:
        out += '{';
        for (size_t n = 0; n < j.o.size(); ++n) {
            if (n)
                out += ',';
            dump_str(j.o[n].first, out);
            out += ':';
            dump_rec(j.o[n].second, out);
        }
        out += '}';
        break;
    }
}

std::string Json::dump() const
{
    std::string out;
    dump_rec(*this, out);
    return out;
}

namespace {
struct P {
    const char *p, *e;
    std::string err;
    bool rfc = false; // decode \uXXXX as RFC 8259 says (code points -> UTF-8) instead of our own latin-1 view of bytes
    void ws()
    {
        while (p < e && (*p == ' ' || *p == '\n' || *p == '\r' || *p == '\t'))
            ++p;
    }
    bool fail(const char *m)
    {
        if (err.empty())
            err = m;
        return false;
    }
    bool str(std::string &out)
    {
        if (p >= e || *p != '"')
            return fail("expected string");
        ++p;
        while (p < e && *p != '"') {
            unsigned char c = *p++;
            if (c == '\\') {
                if (p >= e)
                    return fail("bad escape");
                char x = *p++;
                switch (x) {
                case '"': out += '"'; break;
                case '\\': out += '\\'; break;
                case '/': out += '/'; break;
                case 'b': out += '\b'; break;
                case 'f': out += '\f'; break;
                case 'n': out += '\n'; break;
                case 'r': out += '\r'; break;
                case 't': out += '\t'; break;
                case 'u': {
                    if (e - p < 4)
                        return fail("bad \\u");
                    unsigned v = 0;
                    for (int k = 0; k < 4; ++k) {
                        char h = *p++;
                        v <<= 4;
                        if (h >= '0' && h <= '9') v |= h - '0';
                        else if (h >= 'a' && h <= 'f') v |= h - 'a' + 10;
                        else if (h >= 'A' && h <= 'F') v |= h - 'A' + 10;
                        else return fail("bad \\u digit");
                    }
                    if (rfc && v >= 0xd800 && v < 0xdc00 && e - p >= 6 && p[0] == '\\' && p[1] == 'u') { // surrogate pair
                        unsigned lo = 0;
                        bool okh = true;
                        for (int k = 2; k < 6; ++k) {
                            char h = p[k];
                            lo <<= 4;
                            if (h >= '0' && h <= '9') lo |= h - '0';
                            else if (h >= 'a' && h <= 'f') lo |= h - 'a' + 10;
                            else if (h >= 'A' && h <= 'F') lo |= h - 'A' + 10;
                            else okh = false;
                        }
                        if (okh && lo >= 0xdc00 && lo < 0xe000) {
                            p += 6;
                            unsigned cp = 0x10000 + ((v - 0xd800) << 10) + (lo - 0xdc00);
                            out += (char)(0xf0 | (cp >> 18));
                            out += (char)(0x80 | ((cp >> 12) & 0x3f));
                            out += (char)(0x80 | ((cp >> 6) & 0x3f));
                            out += (char)(0x80 | (cp & 0x3f));
                            break;
                        }
                    }
                    if (v < (rfc ? 0x80u : 0x100u))
                        out += (char)v; // (not rfc: our own files hold a latin-1 view of raw bytes)
                    else if (v < 0x800) {
                        out += (char)(0xc0 | (v >> 6));
                        out += (char)(0x80 | (v & 0x3f));
                    } else {
                        out += (char)(0xe0 | (v >> 12));
                        out += (char)(0x80 | ((v >> 6) & 0x3f));
                        out += (char)(0x80 | (v & 0x3f));
                    }
                    break;
                }
                default: return fail("bad escape char");
                }
            } else
                out += (char)c;
        }
        if (p >= e)
            return fail("unterminated string");
        ++p;
        return true;
    }
    bool val(Json &j, int depth)
    {
        if (depth > 200)
            return fail("too deep");
        ws();
        if (p >= e)
            return fail("unexpected end");
        char c = *p;
        if (c == '{') {
            ++p;
            j = Json::object();
            ws();
            if (p < e && *p == '}') { ++p; return true; }
            for (;;) {
                ws();
                std::string k;
                if (!str(k)) return false;
                ws();
                if (p >= e || *p != ':') return fail("expected :");
                ++p;
                Json v;
                if (!val(v, depth + 1)) return false;
                j.o.emplace_back(std::move(k), std::move(v));
                ws();
                if (p < e && *p == ',') { ++p; continue; }
                if (p < e && *p == '}') { ++p; return true; }
                return fail("expected , or }");
            }
        }
        if (c == '[') {
            ++p;
            j = Json::array();
            ws();
            if (p < e && *p == ']') { ++p; return true; }
            for (;;) {
                Json v;
                if (!val(v, depth + 1)) return false;
                j.a.push_back(std::move(v));
                ws();
                if (p < e && *p == ',') { ++p; continue; }
                if (p < e && *p == ']') { ++p; return true; }
                return fail("expected , or ]");
            }
        }
        if (c == '"') {
            j = Json("");
            return str(j.s);
        }
        if (e - p >= 4 && !strncmp(p, "true", 4)) { p += 4; j = Json(true); return true; }
        if (e - p >= 5 && !strncmp(p, "false", 5)) { p += 5; j = Json(false); return true; }
        if (e - p >= 4 && !strncmp(p, "null", 4)) { p += 4; j = Json(); return true; }
        // number
        const char *s = p;
        bool isd = false;
        if (p < e && *p == '-') ++p;
        if (p >= e || !(*p >= '0' && *p <= '9')) return fail("bad value");
        while (p < e && ((*p >= '0' && *p <= '9') || *p == '.' || *p == 'e' || *p == 'E' || *p == '+' || *p == '-')) {
            if (*p == '.' || *p == 'e' || *p == 'E') isd = true;
            ++p;
        }
        std::string n(s, p);
        if (isd)
            j = Json(strtod(n.c_str(), nullptr));
        else
            j = Json((long long)strtoll(n.c_str(), nullptr, 10));
        return true;
    }
};
} // namespace

bool Json::parse_rfc(const std::string &text, Json &out, std::string *err)
{
    P ps;
    ps.rfc = true;
    ps.p = text.data();
    ps.e = text.data() + text.size();
    bool ok = ps.val(out, 0);
    if (ok) {
        ps.ws();
        if (ps.p != ps.e) {
            ok = false;
            ps.err = "trailing data";
        }
    }
    if (!ok && err)
        *err = ps.err;
    return ok;
}

bool Json::parse(const std::string &text, Json &out, std::string *err)
{
    P ps;
    ps.p = text.data();
    ps.e = text.data() + text.size();
    bool ok = ps.val(out, 0);
    if (ok) {
        ps.ws();
        if (ps.p != ps.e) {
            ok = false;
            ps.err = "trailing data";
        }
    }
    if (!ok && err)
        *err = ps.err;
    return ok;
}

} // namespace sim
