#include "grammar.h"
#include <algorithm>
#include <deque>
#include <sstream>

namespace sim {
namespace grammar {

// ---------------------------------------------------------------- automaton
static void closure(const Nfa &a, std::set<int> &s)
{
    std::deque<int> q(s.begin(), s.end());
    while (!q.empty()) {
        int x = q.front();
        q.pop_front();
        for (auto &arc : a.arcs)
            if (arc.from == x && arc.label.empty() && s.insert(arc.to).second)
                q.push_back(arc.to);
    }
}

bool Nfa::accepts(const std::vector<std::string> &seq, bool prefix) const
{
    std::set<int> cur = { start };
    closure(*this, cur);
    for (auto &w : seq) {
        std::set<int> nx;
        for (auto &arc : arcs)
            if (!arc.label.empty() && arc.label == w && cur.count(arc.from))
                nx.insert(arc.to);
        closure(*this, nx);
        cur.swap(nx);
        if (cur.empty())
            return false;
    }
    if (prefix)
        return true;
    for (int f : finals)
        if (cur.count(f))
            return true;
    return false;
}

std::vector<std::string> Nfa::some_sentence(Rng &r, int maxlen) const
{
    // random walk biased toward a final state: BFS distances to a final state first
    std::vector<int> dist((size_t)n, 1 << 20);
    std::deque<int> q;
    for (int f : finals) {
        dist[(size_t)f] = 0;
        q.push_back(f);
    }
    while (!q.empty()) {
        int x = q.front();
        q.pop_front();
        for (auto &arc : arcs)
            if (arc.to == x && dist[(size_t)arc.from] > dist[(size_t)x] + 1) {
                dist[(size_t)arc.from] = dist[(size_t)x] + 1;
                q.push_back(arc.from);
            }
    }
    std::vector<std::string> out;
    int cur = start, steps = 0;
    if (dist[(size_t)cur] >= (1 << 20))
        return {};
    while (steps++ < 200) {
        bool is_final = std::find(finals.begin(), finals.end(), cur) != finals.end();
        if (is_final && ((int)out.size() >= maxlen || r.chance(0.5)))
            break;
        std::vector<const Arc *> cand;
        for (auto &arc : arcs)
            if (arc.from == cur && dist[(size_t)arc.to] < (1 << 20))
                cand.push_back(&arc);
        if (cand.empty())
            break;
        const Arc *pick = cand[r.below(cand.size())];
        if ((int)out.size() >= maxlen || r.chance(0.6)) // head for the exit
            for (auto *c : cand)
                if (dist[(size_t)c->to] < dist[(size_t)pick->to])
                    pick = c;
        if (!pick->label.empty())
            out.push_back(pick->label);
        cur = pick->to;
    }
    return out;
}

Json Nfa::to_json() const
{
    Json j = Json::object();
    j.set("n", n);
    j.set("s", start);
    Json f = Json::array();
    for (int x : finals)
        f.push(x);
    j.set("f", f);
    Json a = Json::array();
    for (auto &arc : arcs) {
        Json t = Json::array();
        t.push(arc.from);
        t.push(arc.to);
        t.push(arc.label);
        a.push(t);
    }
    j.set("arcs", a);
    return j;
}

Nfa Nfa::from_json(const Json &j)
{
    Nfa a;
    a.n = (int)j.geti("n");
    a.start = (int)j.geti("s");
    for (auto &x : j["f"].a)
        a.finals.push_back((int)x.num());
    for (auto &t : j["arcs"].a)
        if (t.a.size() == 3)
            a.add((int)t.a[0].num(), (int)t.a[1].num(), t.a[2].s);
    return a;
}

// words sharing their last two phones (set by the DEC world from its dictionary): converging arcs labelled with
// rhyming words exit in the same frames with the same right-context sets, the situation in which a search that
// mixes up history entries reports a spliced path
static std::vector<std::vector<std::string>> g_rhymes;
void set_rhyme_groups(const std::vector<std::vector<std::string>> &groups) { g_rhymes = groups; }

static bool rhyme_pair(Rng &r, const std::vector<std::string> &prefer, std::string &a, std::string &b)
{
    if (g_rhymes.empty())
        return false;
    std::vector<const std::vector<std::string> *> cand;
    for (auto &g : g_rhymes)
        for (auto &w : g)
            if (std::find(prefer.begin(), prefer.end(), w) != prefer.end())
                cand.push_back(&g);
    const std::vector<std::string> &g = !cand.empty() && r.chance(0.7) ? *cand[r.below(cand.size())] : g_rhymes[r.below(g_rhymes.size())];
    if (g.size() < 2)
        return false;
    size_t i = r.below(g.size()), j = r.below(g.size() - 1);
    if (j >= i)
        ++j;
    a = g[i];
    b = g[j];
    // put a preferred (spoken) word first when there is one
    if (std::find(prefer.begin(), prefer.end(), b) != prefer.end())
        std::swap(a, b);
    return true;
}

static std::string pick_word(Rng &r, const std::vector<std::string> &vocab, const std::vector<std::string> &prefer)
{
    if (!prefer.empty() && r.chance(0.5))
        return r.pick(prefer);
    return r.pick(vocab);
}

static std::string fmt_prob(double p)
{
    char b[32];
    snprintf(b, sizeof b, "%g", p);
    return b;
}

// ---------------------------------------------------------------- FSG text
static Json pack(const std::string &kind, const std::string &text, const Nfa &nfa, const std::vector<std::string> &feat)
{
    Json g = Json::object();
    g.set("kind", kind);
    g.set("text", text);
    g.set("nfa", nfa.to_json());
    Json f = Json::array();
    for (auto &x : feat)
        f.push(x);
    g.set("feat", f);
    return g;
}

// Two parallel sentences that differ in one rhyming word (and in a leading extra word) and MERGE in the state after
// it: the word exits of the two rhyming words land in the same state, frame and right-context set.
static bool gen_parallel_merge(Rng &r, const std::vector<std::string> &vocab, const std::vector<std::string> &prefer, Json &out)
{
    if (prefer.size() < 3 || g_rhymes.empty())
        return false;
    // a preferred word (not the first) that has a rhyme partner
    std::vector<std::pair<size_t, std::string>> cand;
    for (size_t i = 1; i < prefer.size(); ++i)
        for (auto &g : g_rhymes)
            if (std::find(g.begin(), g.end(), prefer[i]) != g.end())
                for (auto &w : g)
                    if (w != prefer[i])
                        cand.emplace_back(i, w);
    if (cand.empty())
        return false;
    auto pick = cand[r.below(cand.size())];
    size_t k = pick.first;
    Nfa a;
    std::vector<double> ap;
    std::ostringstream body;
    int start = a.add_state();
    // chain A: the sentence with the rhyme substituted at position k
    int cur = start;
    std::vector<int> a_states;
    for (size_t i = 0; i < k; ++i) {
        int nx = a.add_state();
        a.add(cur, nx, prefer[i]);
        cur = nx;
    }
    int merge = a.add_state();
    a.add(cur, merge, pick.second);
    // chain B: an extra leading word, then the true sentence
    std::string lead = r.chance(0.5) && !vocab.empty() ? r.pick(vocab) : std::string("a");
    cur = a.add_state();
    a.add(start, cur, lead);
    for (size_t i = 0; i < k; ++i) {
        int nx = a.add_state();
        a.add(cur, nx, prefer[i]);
        cur = nx;
    }
    a.add(cur, merge, prefer[k]);
    cur = merge;
    for (size_t i = k + 1; i < prefer.size(); ++i) {
        int nx = a.add_state();
        a.add(cur, nx, prefer[i]);
        cur = nx;
    }
    a.start = start;
    a.finals = { cur };
    std::ostringstream o;
    o << "FSG_BEGIN pm" << (r.next() & 0xfff) << "\nNUM_STATES " << a.n << "\nSTART_STATE " << start << "\nFINAL_STATE " << cur << "\n";
    for (auto &arc : a.arcs)
        o << "TRANSITION " << arc.from << " " << arc.to << " " << (r.chance(0.5) ? "1.0" : "0.5") << " " << arc.label << "\n";
    o << "FSG_END\n";
    out = pack("fsg", o.str(), a, { "parallel_merge", "rhyming_convergence" });
    return true;
}

static std::vector<std::vector<std::string>> g_homophones;
void set_homophone_groups(const std::vector<std::vector<std::string>> &groups) { g_homophones = groups; }

// Two equally weighted continuations after a common prefix: the sentence's own word, leading straight to the final
// state, and a homophone of it that still needs one more word.  Both score exactly alike at the end of the audio; only
// the first is a sentence.  The unfinished branch gets the lower state numbers.
static bool gen_homophone_tie(Rng &r, const std::vector<std::string> &vocab, const std::vector<std::string> &prefer, Json &out)
{
    if (prefer.size() < 2 || g_homophones.empty())
        return false;
    std::vector<std::pair<size_t, std::string>> cand;
    for (size_t i = 1; i < prefer.size(); ++i)
        for (auto &g : g_homophones)
            if (std::find(g.begin(), g.end(), prefer[i]) != g.end())
                for (auto &w : g)
                    if (w != prefer[i])
                        cand.emplace_back(i, w);
    if (cand.empty())
        return false;
    // prefer a tie on the last word of the sentence
    std::sort(cand.begin(), cand.end());
    auto pick = r.chance(0.7) ? cand.back() : cand[r.below(cand.size())];
    size_t k = pick.first;
    Nfa a;
    int cur = a.add_state();
    a.start = cur;
    for (size_t i = 0; i < k; ++i) {
        int nx = a.add_state();
        a.add(cur, nx, prefer[i]);
        cur = nx;
    }
    int branch = cur;
    int unfinished = a.add_state();
    a.add(branch, unfinished, pick.second);
    int after = a.add_state();
    a.add(branch, after, prefer[k]);
    cur = after;
    for (size_t i = k + 1; i < prefer.size(); ++i) {
        int nx = a.add_state();
        a.add(cur, nx, prefer[i]);
        cur = nx;
    }
    int fin = cur;
    a.add(unfinished, fin, !vocab.empty() ? r.pick(vocab) : std::string("a"));
    a.finals = { fin };
    std::ostringstream o;
    o << "FSG_BEGIN ht" << (r.next() & 0xfff) << "\nNUM_STATES " << a.n << "\nSTART_STATE " << a.start << "\nFINAL_STATE " << fin << "\n";
    for (auto &arc : a.arcs)
        o << "TRANSITION " << arc.from << " " << arc.to << " " << ((arc.from == branch) ? "0.5" : "1.0") << " " << arc.label << "\n";
    o << "FSG_END\n";
    out = pack("fsg", o.str(), a, { "homophone_tie" });
    return true;
}

static bool g_converge = false;
void set_convergence_bias(bool on) { g_converge = on; }

static Json gen_fsg_pref(Rng &r, const std::vector<std::string> &vocab, const std::vector<std::string> &prefer)
{
    if (r.chance(g_converge ? 0.12 : 0.04)) {
        Json ht;
        if (gen_homophone_tie(r, vocab, prefer, ht))
            return ht;
    }
    if (r.chance(g_converge ? 0.45 : 0.2)) {
        Json pm;
        if (gen_parallel_merge(r, vocab, prefer, pm))
            return pm;
    }
    int N = (int)r.range(2, 8);
    Nfa a;
    a.n = N;
    a.start = r.chance(0.8) ? 0 : (int)r.below((uint64_t)N);
    int fin = r.chance(0.08) ? a.start : (r.chance(0.7) ? N - 1 : (int)r.below((uint64_t)N));
    a.finals = { fin };
    std::vector<std::string> feat;
    if (fin == a.start)
        feat.push_back("start=final");
    static const std::vector<double> probs = { 1.0, 1.0, 0.5, 0.9, 0.1, 0.25, 0.01 };
    std::vector<double> ap;
    // null-edge reachability, to keep null cycles out unless wanted
    bool allow_null_cycle = r.chance(0.04);
    std::vector<std::vector<bool>> nreach((size_t)N, std::vector<bool>((size_t)N, false));
    auto null_ok = [&](int f, int t) {
        if (f == t)
            return false;
        if (allow_null_cycle)
            return true;
        return !nreach[(size_t)t][(size_t)f];
    };
    auto add_null = [&](int f, int t) {
        a.add(f, t, "");
        ap.push_back(r.pick(probs));
        nreach[(size_t)f][(size_t)t] = true;
        for (int x = 0; x < N; ++x)
            for (int y = 0; y < N; ++y)
                if ((x == f || nreach[(size_t)x][(size_t)f]) && (y == t || nreach[(size_t)t][(size_t)y]))
                    nreach[(size_t)x][(size_t)y] = true;
    };
    // backbone start -> ... -> final
    {
        std::vector<int> mid;
        for (int s = 0; s < N; ++s)
            if (s != a.start && s != fin && r.chance(0.6))
                mid.push_back(s);
        for (size_t i = mid.size(); i > 1; --i)
            std::swap(mid[i - 1], mid[r.below(i)]);
        std::vector<int> path = { a.start };
        for (int m : mid)
            path.push_back(m);
        if (fin != a.start || path.size() > 1)
            path.push_back(fin);
        size_t pi = 0;
        for (size_t i = 0; i + 1 < path.size(); ++i) {
            if (r.chance(0.15) && null_ok(path[i], path[i + 1])) {
                add_null(path[i], path[i + 1]);
                feat.push_back("null_on_backbone");
            } else {
                std::string w = !prefer.empty() && pi < prefer.size() && r.chance(0.7) ? prefer[pi++] : pick_word(r, vocab, prefer);
                a.add(path[i], path[i + 1], w);
                ap.push_back(r.pick(probs));
            }
        }
    }
    if (N >= 3 && r.chance(g_converge ? 0.7 : 0.45)) { // two arcs from DIFFERENT states into the same state, labelled with rhyming words
        std::string w1, w2;
        if (rhyme_pair(r, prefer, w1, w2)) {
            int t = (int)r.below((uint64_t)N), f1 = (int)r.below((uint64_t)N), f2 = (int)r.below((uint64_t)N);
            if (f1 != f2) {
                a.add(f1, t, w1);
                ap.push_back(r.pick(probs));
                a.add(f2, t, w2);
                ap.push_back(r.pick(probs));
                feat.push_back("rhyming_convergence");
            }
        }
    }
    int extra = (int)r.range(0, 2 * N);
    for (int k = 0; k < extra; ++k) {
        int f = (int)r.below((uint64_t)N), t = (int)r.below((uint64_t)N);
        if (r.chance(0.2)) {
            if (null_ok(f, t)) {
                add_null(f, t);
                if (allow_null_cycle && nreach[(size_t)f][(size_t)f])
                    feat.push_back("null_cycle");
            }
        } else {
            a.add(f, t, pick_word(r, vocab, prefer));
            ap.push_back(r.pick(probs));
            if (f == t)
                feat.push_back("self_loop");
            else if (t < f)
                feat.push_back("back_arc");
        }
    }
    std::ostringstream o;
    o << "FSG_BEGIN g" << (r.next() & 0xfff) << "\nNUM_STATES " << N << "\nSTART_STATE " << a.start << "\nFINAL_STATE " << fin << "\n\n# Transitions\n";
    for (size_t i = 0; i < a.arcs.size(); ++i) {
        o << "TRANSITION " << a.arcs[i].from << " " << a.arcs[i].to << " " << fmt_prob(ap[i]);
        if (!a.arcs[i].label.empty())
            o << " " << a.arcs[i].label;
        o << "\n";
    }
    o << "FSG_END\n";
    return pack("fsg", o.str(), a, feat);
}

Json gen_fsg(Rng &r, const std::vector<std::string> &vocab) { return gen_fsg_pref(r, vocab, {}); }

// FSG text -> automaton by an independent reader (for the repository's own .fsg files)
static Nfa nfa_from_fsg_text(const std::string &text)
{
    Nfa a;
    std::istringstream in(text);
    std::string line;
    while (std::getline(in, line)) {
        std::istringstream ls(line);
        std::string kw;
        ls >> kw;
        if (kw == "NUM_STATES" || kw == "N")
            ls >> a.n;
        else if (kw == "START_STATE" || kw == "S")
            ls >> a.start;
        else if (kw == "FINAL_STATE" || kw == "F") {
            int f;
            ls >> f;
            a.finals = { f };
        } else if (kw == "TRANSITION" || kw == "T") {
            int f, t;
            double p;
            std::string w;
            ls >> f >> t >> p;
            ls >> w;
            a.add(f, t, w);
        }
    }
    return a;
}

// ---------------------------------------------------------------- JSGF
namespace {
struct Node {
    enum T { WORD, SEQ, ALT, OPT, STAR, PLUS, REF, NUL } t = WORD;
    std::string s; // word or rule name
    std::vector<Node> kids;
    std::vector<double> weights; // ALT only (empty = unweighted)
    std::string tag;
};

struct Rule {
    std::string name;
    Node body;
    bool recursive = false; // body is ALT whose first alternative ends in REF(self)
};

struct JGen {
    Rng &r;
    const std::vector<std::string> &vocab;
    const std::vector<std::string> &prefer;
    std::vector<Rule> rules; // rules[0] is public
    std::set<std::string> feat;
    size_t pi = 0;

    Node word()
    {
        Node n;
        n.t = Node::WORD;
        n.s = !prefer.empty() && pi < prefer.size() && r.chance(0.6) ? prefer[pi++] : pick_word(r, vocab, prefer);
        if (r.chance(0.05)) {
            n.tag = "t" + std::to_string(r.below(9));
            feat.insert("tag");
        }
        return n;
    }
    Node gen(int depth, size_t rule_idx)
    {
        int k = (int)r.weighted({ depth >= 3 ? 60 : 30, depth >= 3 ? 5 : 20, depth >= 3 ? 5 : 15, 10, 5, 4, rule_idx + 1 < rules.size() ? 10 : 0, 2 });
        Node n;
        switch (k) {
        case 0: return word();
        case 1: {
            n.t = Node::SEQ;
            int c = (int)r.range(2, 4);
            for (int i = 0; i < c; ++i)
                n.kids.push_back(gen(depth + 1, rule_idx));
            return n;
        }
        case 2: {
            n.t = Node::ALT;
            int c = (int)r.range(2, 4);
            bool weighted = r.chance(0.3);
            for (int i = 0; i < c; ++i) {
                n.kids.push_back(gen(depth + 1, rule_idx));
                if (weighted)
                    n.weights.push_back((double)r.range(1, 9) / 10.0 * (r.chance(0.1) ? 10 : 1));
            }
            if (weighted)
                feat.insert("weights");
            return n;
        }
        case 3:
            n.t = Node::OPT;
            n.kids.push_back(gen(depth + 1, rule_idx));
            feat.insert("optional");
            return n;
        case 4:
            n.t = Node::STAR;
            n.kids.push_back(gen(depth + 1, rule_idx));
            feat.insert("star");
            return n;
        case 5:
            n.t = Node::PLUS;
            n.kids.push_back(gen(depth + 1, rule_idx));
            feat.insert("plus");
            return n;
        case 6:
            n.t = Node::REF;
            n.s = rules[(size_t)r.range((int64_t)rule_idx + 1, (int64_t)rules.size() - 1)].name;
            feat.insert("ruleref");
            return n;
        default:
            n.t = Node::NUL;
            feat.insert("<NULL>");
            return n;
        }
    }

    static bool atom_like(const Node &n) { return n.t == Node::WORD || n.t == Node::REF || n.t == Node::NUL || n.t == Node::OPT; }
    std::string text(const Node &n, bool in_seq, bool in_unary) const
    {
        std::string s;
        switch (n.t) {
        case Node::WORD: s = n.s; break;
        case Node::REF: s = "<" + n.s + ">"; break;
        case Node::NUL: s = "<NULL>"; break;
        case Node::OPT: s = "[ " + text(n.kids[0], false, false) + " ]"; break;
        case Node::STAR: s = text(n.kids[0], true, true) + "*"; break;
        case Node::PLUS: s = text(n.kids[0], true, true) + "+"; break;
        case Node::SEQ: {
            for (size_t i = 0; i < n.kids.size(); ++i)
                s += (i ? " " : "") + text(n.kids[i], true, false);
            if (in_unary)
                s = "( " + s + " )";
            break;
        }
        case Node::ALT: {
            for (size_t i = 0; i < n.kids.size(); ++i) {
                if (i)
                    s += " | ";
                if (!n.weights.empty())
                    s += "/" + fmt_prob(n.weights[i]) + "/ ";
                s += text(n.kids[i], false, false);
            }
            if (in_seq || in_unary)
                s = "( " + s + " )";
            break;
        }
        }
        if (in_unary && (n.t == Node::STAR || n.t == Node::PLUS))
            s = "( " + s + " )";
        if (!n.tag.empty()) {
            s += " {" + n.tag + "}";
            if (in_unary)
                s = "( " + s + " )";
        }
        return s;
    }

    const Rule *find(const std::string &nm) const
    {
        for (auto &ru : rules)
            if (ru.name == nm)
                return &ru;
        return nullptr;
    }
    // Thompson construction; returns (start, end)
    std::pair<int, int> build(const Node &n, Nfa &a, int depth) const
    {
        int s = a.add_state(), e = a.add_state();
        if (depth > 40) { // cannot happen with acyclic references
            a.add(s, e, "");
            return { s, e };
        }
        switch (n.t) {
        case Node::WORD: a.add(s, e, n.s); break;
        case Node::NUL: a.add(s, e, ""); break;
        case Node::SEQ: {
            int cur = s;
            for (auto &k : n.kids) {
                auto f = build(k, a, depth + 1);
                a.add(cur, f.first, "");
                cur = f.second;
            }
            a.add(cur, e, "");
            break;
        }
        case Node::ALT:
            for (auto &k : n.kids) {
                auto f = build(k, a, depth + 1);
                a.add(s, f.first, "");
                a.add(f.second, e, "");
            }
            break;
        case Node::OPT: {
            auto f = build(n.kids[0], a, depth + 1);
            a.add(s, f.first, "");
            a.add(f.second, e, "");
            a.add(s, e, "");
            break;
        }
        case Node::STAR: {
            auto f = build(n.kids[0], a, depth + 1);
            a.add(s, f.first, "");
            a.add(f.second, e, "");
            a.add(s, e, "");
            a.add(f.second, f.first, "");
            break;
        }
        case Node::PLUS: {
            auto f = build(n.kids[0], a, depth + 1);
            a.add(s, f.first, "");
            a.add(f.second, e, "");
            a.add(f.second, f.first, "");
            break;
        }
        case Node::REF: {
            const Rule *ru = find(n.s);
            if (!ru) {
                a.add(s, e, "");
                break;
            }
            if (ru->recursive) {
                // <r> = X <r> | Y   ==   X* Y   (tail recursion only)
                const Node &alt = ru->body;
                for (size_t i = 0; i < alt.kids.size(); ++i) {
                    const Node &k = alt.kids[i];
                    bool tail = k.t == Node::SEQ && !k.kids.empty() && k.kids.back().t == Node::REF && k.kids.back().s == ru->name;
                    if (tail) {
                        int cur = s;
                        for (size_t q = 0; q + 1 < k.kids.size(); ++q) {
                            auto f = build(k.kids[q], a, depth + 1);
                            a.add(cur, f.first, "");
                            cur = f.second;
                        }
                        a.add(cur, s, "");
                    } else {
                        auto f = build(k, a, depth + 1);
                        a.add(s, f.first, "");
                        a.add(f.second, e, "");
                    }
                }
            } else {
                auto f = build(ru->body, a, depth + 1);
                a.add(s, f.first, "");
                a.add(f.second, e, "");
            }
            break;
        }
        }
        return { s, e };
    }
};
} // namespace

// Right recursion that passes through a second rule:  <a> = P.. <b>;  <b> = Q.. <a> | T..;   language (P Q)* P T
// (the automaton is written down from that expression, not from any expansion of the rules)
static Json gen_jsgf_indirect(Rng &r, const std::vector<std::string> &vocab, const std::vector<std::string> &prefer)
{
    auto word = [&]() { return pick_word(r, vocab, prefer); };
    std::vector<std::string> P, Q, T;
    // with preferred words: P = first word, T = the rest, so that the audio's sentence is P T
    if (prefer.size() >= 2 && r.chance(0.7)) {
        P = { prefer[0] };
        T.assign(prefer.begin() + 1, prefer.end());
        Q = { r.chance(0.6) ? prefer[1] : word() };
    } else {
        for (int i = (int)r.range(1, 2); i > 0; --i) P.push_back(word());
        for (int i = (int)r.range(1, 2); i > 0; --i) Q.push_back(word());
        for (int i = (int)r.range(1, 3); i > 0; --i) T.push_back(word());
    }
    auto join = [](const std::vector<std::string> &v) {
        std::string t;
        for (auto &w : v)
            t += (t.empty() ? "" : " ") + w;
        return t;
    };
    std::string text = "#JSGF V1.0;\ngrammar ind" + std::to_string(r.next() & 0xfff) + ";\npublic <a> = " + join(P) + " <b>;\n<b> = " + join(Q) + " <a> | " + join(T) + ";\n";
    Nfa a;
    int A = a.add_state(), fin;
    a.start = A;
    auto chain = [&](int from, const std::vector<std::string> &ws, int to /* -1: new */) {
        int cur = from;
        for (size_t i = 0; i < ws.size(); ++i) {
            int nx = (i + 1 == ws.size() && to >= 0) ? to : a.add_state();
            a.add(cur, nx, ws[i]);
            cur = nx;
        }
        return cur;
    };
    int B = chain(A, P, -1);
    chain(B, Q, A);
    fin = chain(B, T, -1);
    a.finals = { fin };
    return pack("jsgf", text, a, { "indirect_right_recursion", "right_recursion" });
}

static Json gen_jsgf_pref(Rng &r, const std::vector<std::string> &vocab, const std::vector<std::string> &prefer)
{
    if (r.chance(0.07))
        return gen_jsgf_indirect(r, vocab, prefer);
    JGen g { r, vocab, prefer, {}, {}, 0 };
    int nrules = (int)r.weighted({ 0, 50, 25, 15, 10 });
    for (int i = 0; i < nrules; ++i) {
        Rule ru;
        ru.name = i == 0 ? "top" : "r" + std::to_string(i);
        g.rules.push_back(ru);
    }
    // bodies from the last rule backwards so that references are acyclic
    for (int i = nrules - 1; i >= 0; --i) {
        if (i > 0 && r.chance(0.12)) { // tail recursion:  <r> = X <r> | Y
            Node alt;
            alt.t = Node::ALT;
            Node seq;
            seq.t = Node::SEQ;
            seq.kids.push_back(g.word());
            if (r.chance(0.3))
                seq.kids.push_back(g.word());
            Node self;
            self.t = Node::REF;
            self.s = g.rules[(size_t)i].name;
            seq.kids.push_back(self);
            alt.kids.push_back(seq);
            alt.kids.push_back(g.word());
            g.rules[(size_t)i].body = alt;
            g.rules[(size_t)i].recursive = true;
            g.feat.insert("right_recursion");
        } else {
            Node b = g.gen(i == 0 ? 0 : 1, (size_t)i);
            if (i == 0 && b.t != Node::SEQ && b.t != Node::ALT && r.chance(0.7)) { // give the top rule some substance
                Node seq;
                seq.t = Node::SEQ;
                seq.kids.push_back(b);
                seq.kids.push_back(g.gen(1, 0));
                if (r.chance(0.5))
                    seq.kids.push_back(g.gen(1, 0));
                b = seq;
            }
            g.rules[(size_t)i].body = b;
        }
    }
    std::string text = "#JSGF V1.0;\ngrammar g" + std::to_string(r.next() & 0xfff) + ";\n";
    for (size_t i = 0; i < g.rules.size(); ++i)
        text += std::string(i == 0 ? "public " : "") + "<" + g.rules[i].name + "> = " + g.text(g.rules[i].body, false, false) + ";\n";
    Nfa a;
    Node top;
    top.t = Node::REF;
    top.s = "top";
    auto f = g.build(top, a, 0);
    a.start = f.first;
    a.finals = { f.second };
    std::vector<std::string> feat(g.feat.begin(), g.feat.end());
    if (a.accepts_empty())
        feat.push_back("accepts_empty");
    return pack("jsgf", text, a, feat);
}

Json gen_jsgf(Rng &r, const std::vector<std::string> &vocab) { return gen_jsgf_pref(r, vocab, {}); }

// ---------------------------------------------------------------- alignment text
Json gen_align(Rng &r, const std::vector<std::string> &vocab, const std::vector<std::string> &prefer)
{
    std::vector<std::string> words;
    if (!prefer.empty() && r.chance(0.7)) {
        // a contiguous piece of the preferred sentence, sometimes with a word swapped
        size_t a = r.below(prefer.size()), b = (size_t)r.range((int64_t)a + 1, (int64_t)prefer.size());
        if (r.chance(0.5)) {
            a = 0;
            b = prefer.size();
        }
        for (size_t i = a; i < b; ++i)
            words.push_back(r.chance(0.1) ? r.pick(vocab) : prefer[i]);
    } else {
        int n = (int)r.range(1, 6);
        for (int i = 0; i < n; ++i)
            words.push_back(r.pick(vocab));
    }
    Nfa a;
    a.n = (int)words.size() + 1;
    a.start = 0;
    a.finals = { (int)words.size() };
    std::string text;
    for (size_t i = 0; i < words.size(); ++i) {
        a.add((int)i, (int)i + 1, words[i]);
        text += (i ? " " : "") + words[i];
    }
    if (r.chance(0.15))
        text = "  " + text + " \n";
    return pack("align", text, a, { "align" });
}

Json fixed(const std::string &name)
{
    if (name == "goforward_fsg") {
        std::string t = "FSG_BEGIN turtle\nNUM_STATES 7\nSTART_STATE 0\nFINAL_STATE 6\n\n# Transitions\nTRANSITION 0 1 1.0 go\nTRANSITION 1 2 0.5 forward\n"
                        "TRANSITION 1 3 0.5 backward\nTRANSITION 2 4 1.0\nTRANSITION 3 4 1.0\nTRANSITION 4 5 0.1 one\nTRANSITION 4 5 0.1 two\nTRANSITION 4 5 0.1 three\n"
                        "TRANSITION 4 5 0.1 four\nTRANSITION 4 5 0.1 five\nTRANSITION 4 5 0.1 six\nTRANSITION 4 5 0.1 seven\nTRANSITION 4 5 0.1 eight\nTRANSITION 4 5 0.1 nine\n"
                        "TRANSITION 4 5 0.1 ten\nTRANSITION 5 6 0.1 meter\nTRANSITION 5 6 0.9 meters\nFSG_END\n";
        return pack("fsg", t, nfa_from_fsg_text(t), { "repo:goforward.fsg" });
    }
    // goforward.gram, second public rule made the only one
    std::string t = "#JSGF V1.0;\ngrammar goforward;\npublic <move2> = go <direction> <distance> [meter | meters];\n<direction> = forward | backward;\n"
                    "<distance> = one | two | three | four | five | six | seven | eight | nine | ten;\n";
    Nfa a;
    a.n = 5;
    a.start = 0;
    a.finals = { 3, 4 };
    a.add(0, 1, "go");
    a.add(1, 2, "forward");
    a.add(1, 2, "backward");
    for (const char *w : { "one", "two", "three", "four", "five", "six", "seven", "eight", "nine", "ten" })
        a.add(2, 3, w);
    a.add(3, 4, "meter");
    a.add(3, 4, "meters");
    return pack("jsgf", t, a, { "repo:goforward.gram" });
}

Json gen_any(Rng &r, const std::vector<std::string> &vocab, const std::vector<std::string> &prefer)
{
    switch (r.weighted({ g_converge ? 60 : 35, 30, 20, 8, 7 })) {
    case 0: return gen_fsg_pref(r, vocab, prefer);
    case 1: return gen_jsgf_pref(r, vocab, prefer);
    case 2: return gen_align(r, vocab, prefer);
    case 3: return fixed("goforward_fsg");
    default: return fixed("goforward_jsgf");
    }
}

} // namespace grammar
} // namespace sim
