/* config.h for building /repo/src outside CMake: the answers CMake gives on this image
   (compare /repo/config.h.in).  Nothing is ever written into /repo. */
#define HAVE_UNISTD_H
#define HAVE_STDINT_H
#define HAVE_SYS_TYPES_H
#define HAVE_SYS_STAT_H
#define HAVE_SNPRINTF
#define HAVE_POPEN
#define HAVE_GETRUSAGE
/* #undef WITH_PTM_MGAU */
/* #undef WITH_S2_SEMI_MGAU */
#define WORDS_BIGENDIAN 0
