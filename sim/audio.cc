#include "audio.h"
#include <algorithm>
#include <cmath>

extern "C" FILE *__real_fopen(const char *path, const char *mode);

namespace sim {
namespace audio {

namespace {
std::map<std::string, std::vector<int16_t>> g_rec;

bool slurp(const std::string &path, std::string &out)
{
    FILE *f = __real_fopen(path.c_str(), "rb");
    if (!f)
        return false;
    char buf[65536];
    size_t n;
    out.clear();
    while ((n = fread(buf, 1, sizeof buf, f)) > 0)
        out.append(buf, n);
    fclose(f);
    return true;
}
} // namespace

void load_corpus()
{
    if (!g_rec.empty())
        return;
    std::string d = repo_root() + "/tests/data/";
    for (const char *nm : { "goforward", "goforward_fr" }) {
        std::string s;
        if (slurp(d + nm + ".raw", s)) {
            std::vector<int16_t> v(s.size() / 2);
            memcpy(v.data(), s.data(), v.size() * 2);
            g_rec[nm] = v;
        }
    }
    {
        std::string s;
        if (slurp(d + "pizza-float32.raw", s)) {
            size_t n = s.size() / 4;
            std::vector<int16_t> v;
            v.reserve(n);
            for (size_t i = 0; i < n; ++i) {
                float f;
                memcpy(&f, s.data() + 4 * i, 4);
                double x = std::floor((double)f * 32768.0 + 0.5);
                if (x > 32767) x = 32767;
                if (x < -32768) x = -32768;
                v.push_back((int16_t)x);
            }
            // strip trailing zero padding
            while (!v.empty() && v.back() == 0)
                v.pop_back();
            g_rec["pizza"] = v;
        }
    }
    if (g_rec.empty()) {
        fprintf(stderr, "HARNESS-FAULT: no recordings under %s\n", d.c_str());
        exit(2);
    }
}

const std::vector<int16_t> &recording(const std::string &name)
{
    static const std::vector<int16_t> empty;
    auto it = g_rec.find(name);
    return it == g_rec.end() ? empty : it->second;
}

std::vector<std::string> recordings()
{
    std::vector<std::string> r;
    for (auto &kv : g_rec)
        r.push_back(kv.first);
    return r;
}

static int16_t clamp16(double x)
{
    if (x > 32767) return 32767;
    if (x < -32768) return -32768;
    return (int16_t)std::lrint(x);
}

std::vector<int16_t> render(const Json &spec, std::map<std::string, int64_t> *fired)
{
    std::string src = spec.gets("src", "silence");
    int64_t n = spec.geti("n", 0), off = spec.geti("off", 0);
    if (n < 0) n = 0;
    double gain = spec.getd("gain", 1.0);
    Rng r((uint64_t)spec.geti("seed", 1) * 2654435761ULL + 12345);
    std::vector<int16_t> v((size_t)n);
    const std::vector<int16_t> &rec = recording(src);
    if (!rec.empty()) {
        for (int64_t i = 0; i < n; ++i) {
            int64_t k = (off + i) % (int64_t)rec.size();
            v[(size_t)i] = rec[(size_t)k];
        }
    } else if (src == "noise") {
        int amp = (int)spec.geti("amp", 3000);
        for (auto &x : v)
            x = (int16_t)r.range(-amp, amp);
    } else if (src == "tone") {
        double f = spec.getd("freq", 440.0), ph = 0;
        int amp = (int)spec.geti("amp", 10000);
        for (auto &x : v) {
            ph += 2 * M_PI * f / 16000.0;
            x = clamp16(amp * std::sin(ph));
        }
    } else if (src == "square") {
        int per = (int)spec.geti("period", 32);
        if (per < 2) per = 2;
        int64_t i = 0;
        for (auto &x : v)
            x = ((i++ / (per / 2)) & 1) ? 32767 : -32768;
    } else if (src == "impulse") {
        int per = (int)spec.geti("period", 1000);
        if (per < 1) per = 1;
        int64_t i = 0;
        for (auto &x : v)
            x = (i++ % per) == 0 ? 32767 : 0;
    } else if (src == "dc") {
        int amp = (int)spec.geti("amp", 30000);
        for (auto &x : v)
            x = (int16_t)amp;
    } else if (src == "chirp") {
        double ph = 0;
        int64_t i = 0;
        for (auto &x : v) {
            ph += 2 * M_PI * (100.0 + 7000.0 * (double)i / (double)(n ? n : 1)) / 16000.0;
            x = clamp16(12000 * std::sin(ph));
            ++i;
        }
    } else if (src == "altern") { // alternating silence / loud noise blocks
        int per = (int)spec.geti("period", 4000);
        if (per < 2) per = 2;
        int64_t i = 0;
        for (auto &x : v)
            x = ((i++ / per) & 1) ? (int16_t)r.range(-20000, 20000) : 0;
    } // silence: zeros
    if (gain != 1.0)
        for (auto &x : v)
            x = clamp16(x * gain);
    if (spec.getb("rev"))
        std::reverse(v.begin(), v.end());
    for (auto &f : spec["faults"].a) {
        std::string k = f.gets("kind");
        int64_t a = f.geti("a"), b = f.geti("b");
        if (a < 0) a = 0;
        if (b > n) b = n;
        bool hit = false;
        if (k == "dropout") {
            for (int64_t i = a; i < b; ++i) { v[(size_t)i] = 0; hit = true; }
        } else if (k == "clip") {
            double g = f.getd("val", 8.0);
            for (int64_t i = a; i < b; ++i) { v[(size_t)i] = clamp16(v[(size_t)i] * g); hit = true; }
        } else if (k == "dc") {
            double o = f.getd("val", 8000);
            for (int64_t i = a; i < b; ++i) { v[(size_t)i] = clamp16(v[(size_t)i] + o); hit = true; }
        } else if (k == "impulse") {
            if (a < n) { v[(size_t)a] = (int16_t)(f.geti("val", 32767)); hit = true; }
        } else if (k == "burst") {
            for (int64_t i = a; i < b; ++i) { v[(size_t)i] = (int16_t)r.range(-32768, 32767); hit = true; }
        } else if (k == "cut") {
            if (a < n) { v.resize((size_t)a); n = a; hit = true; }
        }
        if (hit && fired)
            (*fired)["audio." + k]++;
    }
    return v;
}

Json random_spec(Rng &r, int maxn, bool hostile, const std::string &prefer)
{
    Json s = Json::object();
    std::vector<std::string> recs = recordings();
    std::string src;
    if (!prefer.empty())
        src = prefer;
    else if (!hostile && r.chance(0.7))
        src = r.pick(recs);
    else {
        static const std::vector<std::string> syn = { "silence", "noise", "tone", "square", "impulse", "dc", "chirp", "altern" };
        src = r.chance(hostile ? 0.8 : 0.5) ? r.pick(syn) : r.pick(recs);
    }
    s.set("src", src);
    int64_t n = r.range(0, maxn);
    const std::vector<int16_t> &rec = recording(src);
    if (!rec.empty()) {
        int64_t off = r.chance(0.4) ? 0 : (int64_t)r.below(rec.size());
        s.set("off", (long long)off);
        if (r.chance(0.5))
            n = std::min<int64_t>(n, (int64_t)rec.size() - off);
    } else {
        s.set("seed", (long long)(r.next() & 0xffff));
        if (src == "noise") {
            static const std::vector<int> amps = { 1, 30, 3000, 20000, 32767 };
            s.set("amp", r.pick(amps));
        } else if (src == "tone") {
            s.set("freq", (double)r.range(50, 7900));
            s.set("amp", (long long)r.range(100, 32767));
        } else if (src == "square")
            s.set("period", (long long)r.range(2, 400));
        else if (src == "impulse")
            s.set("period", (long long)r.range(1, 5000));
        else if (src == "dc") {
            static const std::vector<int> amps = { 30000, -30000, 32767, -32768, 1 };
            s.set("amp", r.pick(amps));
        } else if (src == "altern")
            s.set("period", (long long)r.range(100, 8000));
    }
    s.set("n", (long long)n);
    if (r.chance(0.15))
        s.set("rev", true);
    if (r.chance(0.15)) {
        static const std::vector<double> g = { 0.01, 0.25, 4.0, 40.0 };
        s.set("gain", r.pick(g));
    }
    if (r.chance(hostile ? 0.5 : 0.3) && n > 10) {
        Json fa = Json::array();
        int nf = (int)r.range(1, 3);
        for (int i = 0; i < nf; ++i) {
            static const std::vector<std::string> kinds = { "dropout", "clip", "dc", "impulse", "burst" };
            Json f = Json::object();
            f.set("kind", r.pick(kinds));
            int64_t a = (int64_t)r.below((uint64_t)n);
            f.set("a", (long long)a);
            f.set("b", (long long)std::min<int64_t>(n, a + r.range(1, 8000)));
            if (f.gets("kind") == "clip")
                f.set("val", (double)r.range(2, 50));
            else if (f.gets("kind") == "dc")
                f.set("val", (double)r.range(-30000, 30000));
            fa.push(f);
        }
        s.set("faults", fa);
    }
    return s;
}

} // namespace audio
} // namespace sim
