// FE world (C06): every cut of the sample stream x output capacity x encoding x configuration x utterance history,
// against the one-call execution of the same build on a pristine front end.
#include "audio.h"
#include "kernel.h"
#include <cmath>

extern "C" {
#include <soundswallower/configuration.h>
#include <soundswallower/err.h>
#include <soundswallower/fe.h>
}

namespace sim {
namespace {

struct FeCfg {
    int samprate = 16000, frate = 100, nfft = 0, lifter = 0, ncep = 13, nfilt = 40;
    double wlen = 0.025625, upperf = 6855.4976, lowerf = 133.33334;
    std::string transform = "legacy";
    bool remove_noise = true, remove_dc = false, logspec = false, smoothspec = false, round_filters = true, unit_area = true, doublebw = false, big_endian = false;
    std::string warp_type, warp_params;
    double alpha = 0.97;
    int S() const { return (int)(wlen * samprate + 0.5); }
    int H() const { return (int)((double)samprate / frate + 0.5); }
};

static FeCfg cfg_from(const Json &j)
{
    FeCfg c;
    c.samprate = (int)j.geti("samprate", c.samprate);
    c.frate = (int)j.geti("frate", c.frate);
    c.nfft = (int)j.geti("nfft", 0);
    c.lifter = (int)j.geti("lifter", 0);
    c.ncep = (int)j.geti("ncep", 13);
    c.nfilt = (int)j.geti("nfilt", 40);
    c.wlen = j.getd("wlen", c.wlen);
    c.upperf = j.getd("upperf", c.upperf);
    c.lowerf = j.getd("lowerf", c.lowerf);
    c.transform = j.gets("transform", "legacy");
    c.remove_noise = j.getb("remove_noise", true);
    c.remove_dc = j.getb("remove_dc", false);
    c.logspec = j.getb("logspec");
    c.smoothspec = j.getb("smoothspec");
    c.round_filters = j.getb("round_filters", true);
    c.unit_area = j.getb("unit_area", true);
    c.doublebw = j.getb("doublebw", false);
    c.big_endian = j.getb("big_endian", false);
    c.alpha = j.getd("alpha", 0.97);
    c.warp_type = j.gets("warp_type", "");
    c.warp_params = j.gets("warp_params", "");
    return c;
}

static Json cfg_json(const FeCfg &c)
{
    Json j = Json::object();
    j.set("samprate", c.samprate);
    j.set("frate", c.frate);
    j.set("wlen", c.wlen);
    j.set("nfft", c.nfft);
    j.set("transform", c.transform);
    j.set("lifter", c.lifter);
    j.set("ncep", c.ncep);
    j.set("nfilt", c.nfilt);
    j.set("upperf", c.upperf);
    j.set("lowerf", c.lowerf);
    j.set("remove_noise", c.remove_noise);
    j.set("remove_dc", c.remove_dc);
    j.set("logspec", c.logspec);
    j.set("smoothspec", c.smoothspec);
    j.set("round_filters", c.round_filters);
    j.set("unit_area", c.unit_area);
    j.set("doublebw", c.doublebw);
    j.set("big_endian", c.big_endian);
    j.set("alpha", c.alpha);
    if (!c.warp_type.empty()) {
        j.set("warp_type", c.warp_type);
        j.set("warp_params", c.warp_params);
    }
    return j;
}

static fe_t *make_fe(const FeCfg &c)
{
    config_t *cf = config_init(NULL);
    config_set_int(cf, "samprate", c.samprate);
    config_set_int(cf, "frate", c.frate);
    config_set_float(cf, "wlen", c.wlen);
    config_set_int(cf, "nfft", c.nfft);
    config_set_str(cf, "transform", c.transform.c_str());
    config_set_int(cf, "lifter", c.lifter);
    config_set_int(cf, "ncep", c.ncep);
    config_set_int(cf, "nfilt", c.nfilt);
    config_set_float(cf, "upperf", c.upperf);
    config_set_float(cf, "lowerf", c.lowerf);
    config_set_bool(cf, "remove_noise", c.remove_noise);
    config_set_bool(cf, "remove_dc", c.remove_dc);
    config_set_bool(cf, "logspec", c.logspec);
    config_set_bool(cf, "smoothspec", c.smoothspec);
    config_set_bool(cf, "round_filters", c.round_filters);
    config_set_bool(cf, "unit_area", c.unit_area);
    config_set_bool(cf, "doublebw", c.doublebw);
    config_set_bool(cf, "dither", 0);
    config_set_str(cf, "input_endian", c.big_endian ? "big" : "little");
    config_set_float(cf, "alpha", c.alpha);
    if (!c.warp_type.empty()) { // vocal-tract-length warping of the filterbank
        config_set_str(cf, "warp_type", c.warp_type.c_str());
        if (!c.warp_params.empty())
            config_set_str(cf, "warp_params", c.warp_params.c_str());
    }
    fe_t *fe = fe_init(cf);
    config_free(cf);
    return fe;
}

// independent frame-count formula (DESIGN.md section 5)
static int64_t frames_for(int64_t N, int S, int H)
{
    int64_t full = N >= S ? 1 + (N - S) / H : 0;
    return full + (N - full * H > 0 ? 1 : 0);
}

struct OutArea { // exactly `cap` rows of exactly `dim` floats: a write past either is an ASan error
    mfcc_t **rows;
    int cap;
    OutArea(int cap_, int dim) : cap(cap_)
    {
        rows = (mfcc_t **)malloc(sizeof(mfcc_t *) * (size_t)(cap ? cap : 1));
        for (int i = 0; i < cap; ++i) {
            rows[i] = (mfcc_t *)malloc(sizeof(mfcc_t) * (size_t)dim);
            for (int j = 0; j < dim; ++j)
                rows[i][j] = NAN;
        }
    }
    ~OutArea()
    {
        for (int i = 0; i < cap; ++i)
            free(rows[i]);
        free(rows);
    }
};

struct FeWorld : World {
    const char *name() const override { return "fe"; }
    std::vector<std::string> properties() const override { return { "C06" }; }
    bool cheap(const std::string &) const override { return true; }
    int64_t default_runs(const std::string &, int tier) const override { return tier ? 1200000 : 40000; }
    int watchdog_s(const std::string &) const override { return 60; }
    void setup(const std::string &, int) override { audio::load_corpus(); }
    std::string rule(const std::string &) const override
    {
        return "one run = one front-end configuration from a swarm (sample rate, frame rate, window, FFT size, transform, lifter, ncep, nfilt, noise/DC removal, log-spectrum) + "
               "1-3 utterances on the SAME fe_t; each utterance = a signal (recording excerpt or synthesis, lengths biased to frame-geometry edges, up to 250000 samples) + a "
               "schedule of (chunk length, per-call output capacities, count-only queries), int16 or float32 entry; every chunk and every remainder is passed in its own exact-size "
               "heap buffer and every output area has exactly the allowed rows (ASan). Oracle: bit-identity with a one-call execution on a pristine fe_t of the same build, the "
               "independent frame-count formula, per-call return <= capacity, sample conservation. Non-trivial: the schedule had >= 3 process calls on a signal giving >= 2 frames "
               "and differs from the canonical one-call schedule; distinct = distinct plan digest";
    }
    Json components(const std::string &) const override
    {
        Json j = Json::object();
        Json real = Json::array();
        for (const char *f : { "src/fe_interface.c", "src/fe_sigproc.c", "src/fe_noise.c", "src/fe_warp*.c", "src/config.c" })
            real.push(f);
        j.set("real", real);
        j.set("stub", Json::array());
        j.set("model", "reference = same build, pristine fe_t, one call with exact capacity; frame-count formula independent of the code");
        return j;
    }
    std::vector<std::string> assumptions(const std::string &) const override
    {
        return { "dither stays off (random by construction, not in the property's configuration list)",
                 "int16 and float32 entry points are not mixed inside one utterance; float input is int16/32768.0f exactly",
                 "fe_end is always given room for its frame (capacity 0 drops the frame by contract)" };
    }

    // C06 speaks about the features of configurations the front end accepts: a death inside fe_init
    // (op -2) is a configuration-handling matter (C09/C10), not a chunking dependence
    bool crash_in_domain(const std::string &, const Json &, int op, const std::string &) const override { return op != -2; }

    Json generate(const std::string &, uint64_t seed, int tier) override
    {
        (void)tier;
        Rng r(seed);
        Json plan = Json::object();
        plan.set("world", "fe");
        FeCfg c;
        static const std::vector<int> rates = { 8000, 11025, 16000, 16000, 16000, 22050, 44100 };
        static const std::vector<int> frates = { 50, 100, 100, 100, 105, 125, 200 };
        static const std::vector<double> wlens = { 0.010, 0.0125, 0.02, 0.025, 0.025625, 0.025625, 0.03, 0.04 };
        c.samprate = r.pick(rates);
        c.frate = r.pick(frates);
        c.wlen = r.pick(wlens);
        if (r.chance(0.1))
            c.wlen = 1.0 / c.frate; // frame size == frame shift
        int S = c.S();
        if (r.chance(0.25)) {
            int p = 1;
            while (p < S)
                p <<= 1;
            c.nfft = r.chance(0.8) ? p * (r.chance(0.3) ? 2 : 1) : p / 2; // sometimes too small: must be refused
        }
        static const std::vector<std::string> tr = { "legacy", "legacy", "dct", "htk" };
        c.transform = r.pick(tr);
        c.lifter = r.chance(0.3) ? 22 : 0;
        static const std::vector<int> nf = { 20, 25, 31, 40, 40, 60, 90 }; // (60 and 90: denser than the FFT resolution at the low end)
        c.nfilt = r.pick(nf);
        static const std::vector<int> nc = { 8, 13, 13, 13, 20 };
        c.ncep = std::min(r.pick(nc), c.nfilt);
        c.upperf = std::min(6855.4976, c.samprate / 2.0 * (r.chance(0.5) ? 0.85 : 1.0));
        if (c.samprate >= 22050 && r.chance(0.5))
            c.upperf = 8000;
        if (r.chance(0.03))
            c.upperf = c.samprate; // above Nyquist: must be refused
        c.lowerf = r.chance(0.7) ? 133.33334 : 0.0;
        c.remove_noise = r.chance(0.6);
        c.remove_dc = r.chance(0.4);
        c.logspec = r.chance(0.1);
        c.smoothspec = r.chance(0.08);
        c.round_filters = r.chance(0.7);
        c.unit_area = r.chance(0.8);
        c.doublebw = r.chance(0.1);
        c.big_endian = r.chance(0.15);
        if (r.chance(0.2)) {
            static const std::vector<std::pair<std::string, std::string>> warps = { { "inverse_linear", "1.2" }, { "inverse_linear", "0.85" }, { "affine", "1.05 30" }, { "affine", "0.9 -40" },
                                                                                       { "piecewise_linear", "1.1 2500" }, { "piecewise_linear", "0.92 0" }, { "inverse_linear", "" } };
            auto &w = warps[r.below(warps.size())];
            c.warp_type = w.first;
            c.warp_params = w.second;
        }
        c.alpha = r.chance(0.12) ? 0.0 : (r.chance(0.1) ? 0.5 : 0.97); // 0: the frame is copied without pre-emphasis (another code path)
        plan.set("cfg", cfg_json(c));
        plan.set("rebuffer", (long long)r.below(3)); // 0 never, 1 always, 2 randomly per call
        int H = c.H();
        Json ops = Json::array();
        int nutt = (int)r.weighted({ 0, 60, 25, 15 });
        for (int u = 0; u < nutt; ++u) {
            // ---- signal, length biased to geometry edges
            int64_t N;
            switch (r.below(10)) {
            case 0: N = r.pick(std::vector<int>{ 0, 1, S - 1, S, S + 1, S + H - 1, S + H, S + H + 1, 2 * S, H, H - 1 }); break;
            case 1: N = S + (int64_t)r.range(0, 40) * H + r.range(-1, 1); break;
            case 2: N = 32767 + r.range(-S - 2, 2 * S); break;
            case 3: N = r.range(40000, 250000); break;
            case 4: N = r.range(0, 3 * S); break;
            default: N = r.range(0, 30000);
            }
            if (N < 0)
                N = 0;
            Json sig = audio::random_spec(r, 250000, r.chance(0.3));
            sig.set("n", (long long)N);
            Json so = Json::object();
            so.set("op", "signal");
            so.set("sig", sig);
            so.set("enc", r.chance(0.35) ? "f32" : "i16");
            ops.push(so);
            // ---- schedule
            int style = (int)r.below(6);
            int64_t left = N;
            int calls = 0;
            while (left > 0 && calls < 40) {
                int64_t len;
                switch (style) {
                case 0: len = r.pick(std::vector<int>{ 1, 2, S - 1, S, S + 1, H, H - 1, H + 1, 2 * H, S + H }); break;
                case 1: len = r.range(1, S); break;                 // always shorter than a window
                case 2: len = r.range(1, 4 * S); break;
                case 3: len = r.chance(0.3) ? r.range(1, 5) : r.range(H, 3000); break;
                case 4: len = r.chance(0.5) ? left : r.range(1, std::max<int64_t>(1, left)); break; // big pieces
                default: len = r.range(1, 6000);
                }
                if (calls == 39 || len > left)
                    len = left;
                if (len < 1)
                    len = 1;
                if (r.chance(0.1)) {
                    Json co = Json::object();
                    co.set("op", "count");
                    co.set("len", (long long)len);
                    ops.push(co);
                }
                Json fo = Json::object();
                fo.set("op", "feed");
                fo.set("len", (long long)len);
                Json caps = Json::array();
                if (r.chance(0.5)) {
                    int nc2 = (int)r.range(1, 5);
                    int64_t need = len / H + 2;
                    for (int k = 0; k < nc2; ++k) {
                        switch (r.below(7)) {
                        case 0: caps.push(0); break;
                        case 1: caps.push(1); break;
                        case 2: caps.push(2); break;
                        case 3: caps.push((long long)r.range(1, 8)); break;
                        case 4: caps.push((long long)std::max<int64_t>(1, need - 2)); break; // exact-ish
                        case 5: caps.push((long long)std::max<int64_t>(1, need / 2)); break;
                        default: caps.push((long long)(need + 5));
                        }
                    }
                }
                fo.set("caps", caps);
                ops.push(fo);
                left -= len;
                calls++;
            }
            if (u + 1 < nutt && r.chance(0.12)) { // given up without fe_end: the next fe_start must begin from scratch all the same
                Json ab = Json::object();
                ab.set("op", "abandon");
                ops.push(ab);
                continue;
            }
            Json eo = Json::object();
            eo.set("op", "end");
            eo.set("cap", (long long)r.range(1, 3));
            ops.push(eo);
        }
        plan.set("ops", ops);
        return plan;
    }

    void execute(const Json &plan, const Ctx &ctx) override
    {
        Outcome &out = *ctx.out;
        FeCfg c = cfg_from(plan["cfg"]);
        int rebuffer = (int)plan.geti("rebuffer", 1);
        Rng rb(fnv1a(plan["cfg"].dump()) ^ 0x5eed);
        ctx.at(-2);
        fe_t *fe = make_fe(c);
        out.events.i64(fe != nullptr);
        if (!fe) {
            out.probes["fe.init_refused"]++;
            out.trace.tag("refused");
            return;
        }
        int S = 0, H = 0;
        fe_get_input_size(fe, &H, &S);
        const int dim = fe_get_output_size(fe);
        auto bad = [&](int opi, const char *inv, const std::string &msg) { out.violate(std::string("C06.") + inv, "mismatch", inv, msg, opi); };

        std::vector<int16_t> sig;     // current utterance
        std::vector<float> sigf;
        bool f32 = false;
        size_t fed = 0;               // samples handed over so far
        std::vector<std::vector<mfcc_t>> got; // frames produced by the scheduled execution
        int ncalls = 0, utt = 0;
        bool in_utt = false, scheduled_differs = false;

        auto collect = [&](OutArea &oa, int r) {
            for (int i = 0; i < r && i < oa.cap; ++i)
                got.emplace_back(oa.rows[i], oa.rows[i] + dim);
        };
        // one process call on an exact-size copy of [fed, fed+n)
        auto call = [&](int opi, size_t &p, size_t &n, int cap, const int16_t *base16, const float *basef) -> int {
            bool copy = rebuffer == 1 || (rebuffer == 2 && rb.chance(0.5));
            OutArea oa(cap, dim);
            int r;
            size_t before = n;
            if (f32) {
                const float *src = basef + p;
                float *heap = nullptr;
                if (copy) {
                    heap = (float *)malloc(sizeof(float) * (n ? n : 1));
                    memcpy(heap, src, sizeof(float) * n);
                    src = heap;
                }
                float32 *q = (float32 *)src;
                size_t nn = n;
                r = fe_process_float32(fe, &q, &nn, oa.rows, cap);
                size_t adv = (size_t)(q - src);
                if (nn > before || adv != before - nn)
                    bad(opi, "conservation", "call consumed " + std::to_string(adv) + " samples but the count went " + std::to_string(before) + " -> " + std::to_string(nn));
                p += before - std::min(nn, before);
                n = std::min(nn, before);
                free(heap);
            } else {
                const int16_t *src = base16 + p;
                int16_t *heap = nullptr;
                if (copy) {
                    heap = (int16_t *)malloc(sizeof(int16_t) * (n ? n : 1));
                    memcpy(heap, src, sizeof(int16_t) * n);
                    src = heap;
                }
                int16 *q = (int16 *)src;
                size_t nn = n;
                r = fe_process_int16(fe, &q, &nn, oa.rows, cap);
                size_t adv = (size_t)(q - src);
                if (nn > before || adv != before - nn)
                    bad(opi, "conservation", "call consumed " + std::to_string(adv) + " samples but the count went " + std::to_string(before) + " -> " + std::to_string(nn));
                p += before - std::min(nn, before);
                n = std::min(nn, before);
                free(heap);
            }
            ncalls++;
            out.checks++;
            out.events.i64(r);
            out.events.i64((int64_t)(before - n));
            if (r < 0 || r > cap)
                bad(opi, "capacity", "call returned " + std::to_string(r) + " frames with room for " + std::to_string(cap));
            else
                collect(oa, r);
            if (cap > 0 && r == cap && n > 0)
                out.probes["fe.out_cap_hit"]++;
            if (cap == 0)
                out.probes["fe.cap_zero_call"]++;
            return r;
        };
        // feed `len` samples starting at `fed` as one chunk buffer, re-calling with the remainder
        auto feed = [&](int opi, size_t len, const std::vector<int> &caps) {
            if (len > sig.size() - fed)
                len = sig.size() - fed;
            if (len == 0)
                return;
            // the chunk lives in its own exact-size buffer
            int16_t *c16 = nullptr;
            float *cf = nullptr;
            if (f32) {
                cf = (float *)malloc(sizeof(float) * len);
                memcpy(cf, sigf.data() + fed, sizeof(float) * len);
            } else {
                c16 = (int16_t *)malloc(sizeof(int16_t) * len);
                memcpy(c16, sig.data() + fed, sizeof(int16_t) * len);
            }
            size_t p = 0, n = len, ci = 0;
            int guard = 0;
            if (len > 32767)
                out.probes["fe.chunk_gt_32767"]++;
            if ((int)len < S)
                out.probes["fe.chunk_lt_window"]++;
            while (n > 0 && guard++ < 64) {
                int cap = ci < caps.size() ? caps[ci] : (int)(n / (size_t)H + 3);
                ci++;
                if (ci <= caps.size())
                    scheduled_differs = true;
                call(opi, p, n, cap, c16, cf);
                if (!out.violations.empty())
                    break;
            }
            if (n > 0 && out.violations.empty())
                bad(opi, "progress", "samples left after 64 calls with room for frames");
            fed += len;
            free(c16);
            free(cf);
        };
        auto finish_utt = [&](int opi, int endcap) {
            // anything the (possibly minimised) plan did not feed goes in one last chunk
            if (fed < sig.size())
                feed(opi, sig.size() - fed, {});
            if (!out.violations.empty())
                return;
            OutArea oa(endcap, dim);
            int r = fe_end(fe, oa.rows, endcap);
            out.checks++;
            out.events.i64(r);
            if (r < 0 || r > 1 || r > endcap)
                bad(opi, "capacity", "fe_end returned " + std::to_string(r));
            else
                collect(oa, r);
            // ---- reference: pristine fe_t, int16, one call with exact capacity, then fe_end
            fe_t *ref = make_fe(c);
            if (!ref) {
                bad(opi, "reference", "second fe_init with the same configuration failed");
                return;
            }
            int64_t N = (int64_t)sig.size();
            int64_t F = frames_for(N, S, H);
            std::vector<std::vector<mfcc_t>> want;
            {
                int cap = (int)F + 1;
                OutArea ra(cap, dim);
                int16_t *heap = (int16_t *)malloc(sizeof(int16_t) * (size_t)(N ? N : 1));
                memcpy(heap, sig.data(), sizeof(int16_t) * (size_t)N);
                int16 *q = heap;
                size_t nn = (size_t)N;
                int total = 0, guard = 0;
                while (nn > 0 && guard++ < 8) {
                    int r2 = fe_process_int16(ref, &q, &nn, ra.rows + total, cap - total);
                    if (r2 < 0)
                        break;
                    total += r2;
                }
                if (total < cap)
                    total += fe_end(ref, ra.rows + total, cap - total);
                for (int i = 0; i < total; ++i)
                    want.emplace_back(ra.rows[i], ra.rows[i] + dim);
                free(heap);
            }
            fe_free(ref);
            out.checks += 3;
            out.events.i64((int64_t)want.size());
            if ((int64_t)want.size() != F)
                bad(opi, "frame_count", "one-call execution of " + std::to_string(N) + " samples gave " + std::to_string(want.size()) + " frames, formula says " + std::to_string(F) +
                        " (S=" + std::to_string(S) + " H=" + std::to_string(H) + ")");
            if (got.size() != want.size())
                bad(opi, "frame_count", "scheduled execution gave " + std::to_string(got.size()) + " frames, one-call execution " + std::to_string(want.size()) + " for " +
                        std::to_string(N) + " samples (S=" + std::to_string(S) + " H=" + std::to_string(H) + ", utterance " + std::to_string(utt) + ")");
            else {
                for (size_t i = 0; i < got.size(); ++i)
                    if (memcmp(got[i].data(), want[i].data(), sizeof(mfcc_t) * (size_t)dim) != 0) {
                        int j = 0;
                        while (j < dim && memcmp(&got[i][(size_t)j], &want[i][(size_t)j], sizeof(mfcc_t)) == 0)
                            ++j;
                        char b[200];
                        snprintf(b, sizeof b, "frame %zu of %zu differs at coefficient %d: %.9g vs %.9g (%s entry, utterance %d, %d calls)", i, got.size(), j, (double)got[i][(size_t)j],
                                 (double)want[i][(size_t)j], f32 ? "float32" : "int16", utt, ncalls);
                        bad(opi, f32 ? "encoding_or_chunking" : "chunking", b);
                        break;
                    }
            }
            Digest d;
            for (auto &f : want)
                d.bytes(f.data(), sizeof(mfcc_t) * f.size());
            out.events.u64(d.h);
            out.sim_seconds += (double)N / c.samprate;
            if (ncalls >= 3 && want.size() >= 2 && (scheduled_differs || ncalls > 3))
                out.nontrivial = true;
            if (utt > 0)
                out.probes["fe.utterance_after_earlier_one"]++;
            out.trace.i64(std::min<int64_t>(ncalls, 8));
            out.trace.i64(std::min<int64_t>((int64_t)want.size(), 4));
            out.trace.i64(f32);
        };

        const auto &ops = plan["ops"].a;
        for (size_t k = 0; k < ops.size(); ++k) {
            const Json &op = ops[k];
            int opi = (int)k;
            ctx.at(opi);
            const std::string &o = op.gets("op");
            out.trace.str(o);
            if (o == "signal") {
                if (in_utt)
                    finish_utt(opi, 1); // previous utterance lost its end op in minimisation
                if (!out.violations.empty())
                    break;
                sig = audio::render(op["sig"], &out.faults);
                f32 = op.gets("enc") == "f32";
                sigf.clear();
                if (f32) {
                    sigf.reserve(sig.size());
                    for (int16_t s : sig)
                        sigf.push_back((float)s / 32768.0f);
                }
                if (c.big_endian) { // the caller's data are in the declared byte order: same signal, other representation
                    for (auto &f : sigf) {
                        uint32_t u;
                        memcpy(&u, &f, 4);
                        u = __builtin_bswap32(u);
                        memcpy(&f, &u, 4);
                    }
                    for (auto &v : sig)
                        v = (int16_t)__builtin_bswap16((uint16_t)v);
                    out.probes["fe.big_endian_input"]++;
                }
                fed = 0;
                got.clear();
                ncalls = 0;
                scheduled_differs = false;
                if (utt > 0 || rb.chance(0.5))
                    fe_start(fe);
                in_utt = true;
            } else if (!in_utt) {
                continue;
            } else if (o == "feed") {
                std::vector<int> caps;
                for (auto &cj : op["caps"].a)
                    caps.push_back((int)cj.num());
                feed(opi, (size_t)op.geti("len"), caps);
            } else if (o == "count") {
                size_t len = std::min<size_t>((size_t)op.geti("len"), sig.size() - fed);
                int r;
                if (f32) {
                    float *heap = (float *)malloc(sizeof(float) * (len ? len : 1));
                    memcpy(heap, sigf.data() + fed, sizeof(float) * len);
                    float32 *q = heap;
                    size_t nn = len;
                    r = fe_process_float32(fe, &q, &nn, NULL, 0);
                    if (q != heap || nn != len)
                        bad(opi, "count_only", "count-only query moved the input");
                    free(heap);
                } else {
                    int16_t *heap = (int16_t *)malloc(sizeof(int16_t) * (len ? len : 1));
                    memcpy(heap, sig.data() + fed, sizeof(int16_t) * len);
                    int16 *q = heap;
                    size_t nn = len;
                    r = fe_process_int16(fe, &q, &nn, NULL, 0);
                    if (q != heap || nn != len)
                        bad(opi, "count_only", "count-only query moved the input");
                    free(heap);
                }
                out.events.i64(r);
                out.probes["fe.count_only_query"]++;
                // "the maximum number of output frames which would be generated ... including fe_end()": never less than
                // the frames this chunk really yields if the utterance ends after it (a caller sizes its buffer by it)
                {
                    int64_t obtainable = frames_for((int64_t)(fed + len), S, H) - (int64_t)got.size();
                    out.checks++;
                    if ((int64_t)r < obtainable)
                        bad(opi, "count_only", "count-only query for " + std::to_string(len) + " samples after " + std::to_string(fed) + " answered " + std::to_string(r) +
                                " frames, the chunk yields " + std::to_string(obtainable) + " (with the final one) (S=" + std::to_string(S) + " H=" + std::to_string(H) + ")");
                }
            } else if (o == "end") {
                finish_utt(opi, (int)std::max<int64_t>(1, op.geti("cap", 1)));
                in_utt = false;
                utt++;
            } else if (o == "abandon") {
                in_utt = false; // no fe_end: whatever the front end holds is stale when the next utterance starts
                utt++;
                out.probes["fe.utterance_abandoned"]++;
            }
            if (!out.violations.empty())
                break;
        }
        if (in_utt && out.violations.empty())
            finish_utt((int)ops.size(), 1);
        ctx.at((int)ops.size());
        fe_free(fe);
    }

    std::vector<Json> simplify(const Json &plan) const override
    {
        std::vector<Json> c;
        const auto &ops = plan["ops"].a;
        auto with = [&](size_t n, const Json &o) {
            Json p = plan;
            Json a = Json::array();
            for (size_t m = 0; m < ops.size(); ++m)
                a.push(m == n ? o : ops[m]);
            p.set("ops", a);
            return p;
        };
        for (size_t n = 0; n < ops.size(); ++n) {
            const Json &o = ops[n];
            if (o.gets("op") == "signal") {
                int64_t N = o["sig"].geti("n");
                for (int64_t nn : { N / 2, N - 1000, N - 1 }) {
                    if (nn < 0 || nn >= N)
                        continue;
                    Json o2 = o;
                    Json s = o["sig"];
                    s.set("n", (long long)nn);
                    o2.set("sig", s);
                    c.push_back(with(n, o2));
                }
                if (o["sig"].has("faults")) {
                    Json o2 = o;
                    Json s = o["sig"];
                    s.erase("faults");
                    o2.set("sig", s);
                    c.push_back(with(n, o2));
                }
                if (o.gets("enc") == "f32") {
                    Json o2 = o;
                    o2.set("enc", "i16");
                    c.push_back(with(n, o2));
                }
            } else if (o.gets("op") == "feed") {
                if (!o["caps"].a.empty()) {
                    Json o2 = o;
                    Json caps = Json::array();
                    for (size_t k = 0; k + 1 < o["caps"].a.size(); ++k)
                        caps.push(o["caps"].a[k]);
                    o2.set("caps", caps);
                    c.push_back(with(n, o2));
                }
                int64_t len = o.geti("len");
                if (len > 1) {
                    Json o2 = o;
                    o2.set("len", (long long)(len / 2));
                    c.push_back(with(n, o2));
                }
            }
        }
        // simpler configuration
        {
            Json cfg = plan["cfg"];
            FeCfg d;
            Json dj = cfg_json(d);
            for (auto &kv : dj.o)
                if (cfg[kv.first].dump() != kv.second.dump() && kv.first != "samprate" && kv.first != "frate" && kv.first != "wlen") {
                    Json p = plan;
                    Json c2 = cfg;
                    c2.set(kv.first, kv.second);
                    p.set("cfg", c2);
                    c.push_back(p);
                }
        }
        return c;
    }
};

static FeWorld g_fe;
struct Reg {
    Reg() { register_world(&g_fe); }
} g_reg;

} // namespace
} // namespace sim
