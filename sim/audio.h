// Simulated audio channel: clips from the repository's recordings or seeded synthesis, with injected faults.
#pragma once
#include "kernel.h"

namespace sim {
namespace audio {

void load_corpus();                                       // reads tests/data recordings once (template time)
const std::vector<int16_t> &recording(const std::string &name); // goforward | goforward_fr | pizza
std::vector<std::string> recordings();
// spec: {"src": recording name | silence | noise | tone | square | impulse | dc | chirp,
//        "off": start sample (recordings), "n": samples, "seed": s, "gain": g (1.0), "rev": bool,
//        "faults": [{"kind": dropout|clip|dc|impulse|burst|cut, "a": from, "b": to, "val": v}]}
std::vector<int16_t> render(const Json &spec, std::map<std::string, int64_t> *fired = nullptr);
// random clip spec; maxn = maximum samples
Json random_spec(Rng &r, int maxn, bool hostile, const std::string &prefer = "");

} // namespace audio
} // namespace sim
