// Deterministic-simulation kernel for the SoundSwallower property checks.
// One integer (VERIF_SEED) decides everything; see /verif/DESIGN.md section 3.
#pragma once
#include <cstdint>
#include <cstdio>
#include <cstdlib>
#include <cstring>
#include <map>
#include <memory>
#include <set>
#include <string>
#include <utility>
#include <vector>

namespace sim {

// ---------------------------------------------------------------- PRNG
static inline uint64_t splitmix64(uint64_t &x)
{
    uint64_t z = (x += 0x9e3779b97f4a7c15ULL);
    z = (z ^ (z >> 30)) * 0xbf58476d1ce4e5b9ULL;
    z = (z ^ (z >> 27)) * 0x94d049bb133111ebULL;
    return z ^ (z >> 31);
}

static inline uint64_t fnv1a(const void *p, size_t n, uint64_t h = 0xcbf29ce484222325ULL)
{
    const unsigned char *c = (const unsigned char *)p;
    for (size_t i = 0; i < n; ++i) {
        h ^= c[i];
        h *= 0x100000001b3ULL;
    }
    return h;
}
static inline uint64_t fnv1a(const std::string &s, uint64_t h = 0xcbf29ce484222325ULL)
{
    return fnv1a(s.data(), s.size(), h);
}

struct Rng { // xoshiro256**
    uint64_t s[4];
    explicit Rng(uint64_t seed = 1) { reseed(seed); }
    void reseed(uint64_t seed)
    {
        uint64_t x = seed;
        for (int i = 0; i < 4; ++i)
            s[i] = splitmix64(x);
    }
    static inline uint64_t rotl(uint64_t x, int k) { return (x << k) | (x >> (64 - k)); }
    uint64_t next()
    {
        uint64_t r = rotl(s[1] * 5, 7) * 9, t = s[1] << 17;
        s[2] ^= s[0];
        s[3] ^= s[1];
        s[1] ^= s[2];
        s[0] ^= s[3];
        s[2] ^= t;
        s[3] = rotl(s[3], 45);
        return r;
    }
    // uniform in [0, n), n >= 1
    uint64_t below(uint64_t n) { return n <= 1 ? 0 : next() % n; }
    // uniform in [a, b] inclusive
    int64_t range(int64_t a, int64_t b) { return b <= a ? a : a + (int64_t)below((uint64_t)(b - a) + 1); }
    double unit() { return (next() >> 11) * (1.0 / 9007199254740992.0); }
    bool chance(double p) { return unit() < p; }
    template <class T>
    const T &pick(const std::vector<T> &v) { return v[below(v.size())]; }
    // index drawn with integer weights
    size_t weighted(const std::vector<int> &w)
    {
        int64_t tot = 0;
        for (int x : w)
            tot += x;
        if (tot <= 0)
            return 0;
        int64_t r = (int64_t)below((uint64_t)tot);
        for (size_t i = 0; i < w.size(); ++i) {
            if (r < w[i])
                return i;
            r -= w[i];
        }
        return w.size() - 1;
    }
};

// ---------------------------------------------------------------- JSON
struct Json;
typedef std::vector<std::pair<std::string, Json>> JsonObj;
struct Json {
    enum Type { NUL, BOOL, INT, DBL, STR, ARR, OBJ } t = NUL;
    bool b = false;
    int64_t i = 0;
    double d = 0;
    std::string s;
    std::vector<Json> a;
    JsonObj o;

    Json() {}
    Json(bool v) : t(BOOL), b(v) {}
    Json(int v) : t(INT), i(v) {}
    Json(unsigned v) : t(INT), i(v) {}
    Json(long v) : t(INT), i(v) {}
    Json(long long v) : t(INT), i(v) {}
    Json(unsigned long v) : t(INT), i((int64_t)v) {}
    Json(unsigned long long v) : t(INT), i((int64_t)v) {}
    Json(double v) : t(DBL), d(v) {}
    Json(const char *v) : t(STR), s(v) {}
    Json(const std::string &v) : t(STR), s(v) {}
    static Json array() { Json j; j.t = ARR; return j; }
    static Json object() { Json j; j.t = OBJ; return j; }

    bool is_null() const { return t == NUL; }
    bool has(const std::string &k) const
    {
        for (auto &kv : o)
            if (kv.first == k)
                return true;
        return false;
    }
    const Json &operator[](const std::string &k) const
    {
        static const Json nul;
        for (auto &kv : o)
            if (kv.first == k)
                return kv.second;
        return nul;
    }
    Json &set(const std::string &k, Json v)
    {
        t = OBJ;
        for (auto &kv : o)
            if (kv.first == k) {
                kv.second = std::move(v);
                return kv.second;
            }
        o.emplace_back(k, std::move(v));
        return o.back().second;
    }
    void erase(const std::string &k)
    {
        for (size_t n = 0; n < o.size(); ++n)
            if (o[n].first == k) {
                o.erase(o.begin() + n);
                return;
            }
    }
    Json &push(Json v)
    {
        t = ARR;
        a.push_back(std::move(v));
        return a.back();
    }
    int64_t num(int64_t dflt = 0) const { return t == INT ? i : t == DBL ? (int64_t)d : t == BOOL ? b : dflt; }
    double dbl(double dflt = 0) const { return t == DBL ? d : t == INT ? (double)i : dflt; }
    const std::string &str() const { return s; }
    bool truthy() const { return t == BOOL ? b : t == INT ? i != 0 : t == NUL ? false : true; }
    int64_t geti(const std::string &k, int64_t dflt = 0) const { return has(k) ? (*this)[k].num(dflt) : dflt; }
    double getd(const std::string &k, double dflt = 0) const { return has(k) ? (*this)[k].dbl(dflt) : dflt; }
    std::string gets(const std::string &k, const std::string &dflt = "") const { return has(k) && (*this)[k].t == STR ? (*this)[k].s : dflt; }
    bool getb(const std::string &k, bool dflt = false) const { return has(k) ? (*this)[k].truthy() : dflt; }

    std::string dump() const;
    static bool parse(const std::string &text, Json &out, std::string *err = nullptr);
    static bool parse_rfc(const std::string &text, Json &out, std::string *err = nullptr); // \u escapes are code points (for text the library wrote)
};

// ---------------------------------------------------------------- digest
struct Digest {
    uint64_t h = 0xcbf29ce484222325ULL;
    void bytes(const void *p, size_t n) { h = fnv1a(p, n, h); }
    void u64(uint64_t v) { bytes(&v, sizeof v); }
    void i64(int64_t v) { bytes(&v, sizeof v); }
    void f64(double v) { bytes(&v, sizeof v); }
    void str(const std::string &s)
    {
        u64(s.size());
        bytes(s.data(), s.size());
    }
    void tag(const char *s) { bytes(s, strlen(s) + 1); }
};

// ---------------------------------------------------------------- run-time interface of a world
struct Violation {
    std::string invariant; // stable id, e.g. "C20.lookup"
    std::string kind;      // mismatch | crash:asan:<type> | crash:assert | exit:<n> | exit:fatal | hang | leak ...
    std::string site;      // function in /repo/src, or "-"
    std::string trigger;   // abstract cause
    std::string detail;    // free text (not part of the class)
    int op = -1;
    std::string cls() const { return invariant + "|" + kind + "|" + site + "|" + trigger; }
};

// What the executing child reports for one run.
struct Outcome {
    Digest events;                        // digest of the observable event log
    std::vector<Violation> violations;    // only armed invariants land here
    std::map<std::string, int64_t> faults; // fault kind -> times actually fired
    std::map<std::string, int64_t> probes; // rare condition -> hits
    std::map<std::string, int64_t> other;  // unarmed observations
    double sim_seconds = 0;               // simulated stream time covered
    bool nontrivial = false;              // see World::rule()
    Digest trace;                         // abstract trace (task, op kind, abstract state)
    int64_t checks = 0;                   // oracle evaluations performed
    void violate(const std::string &inv, const std::string &kind, const std::string &trigger,
                 const std::string &detail, int op = -1, const std::string &site = "-")
    {
        Violation v;
        v.invariant = inv;
        v.kind = kind;
        v.site = site;
        v.trigger = trigger;
        v.detail = detail;
        v.op = op;
        violations.push_back(v);
    }
};

struct Ctx { // per-run context given to World::execute
    std::string property; // e.g. "C06"
    int tier = 0;         // 0 quick, 1 thorough
    Outcome *out = nullptr;
    volatile int32_t *cur_op = nullptr; // shared page: index of the op about to execute
    volatile char *note = nullptr;      // shared page: 256 bytes of free text (e.g. file being loaded)
    void at(int op) const
    {
        if (cur_op)
            *cur_op = op;
    }
    void set_note(const std::string &s) const
    {
        if (!note)
            return;
        size_t n = s.size() < 255 ? s.size() : 255;
        memcpy((void *)note, s.data(), n);
        ((char *)note)[n] = 0;
    }
};

struct World {
    virtual ~World() {}
    virtual const char *name() const = 0;
    // properties served by this world
    virtual std::vector<std::string> properties() const = 0;
    // true: microsecond runs, fork one child per batch; false: fork per run
    virtual bool cheap(const std::string &property) const { (void)property; return false; }
    // default number of runs for (property, tier)
    virtual int64_t default_runs(const std::string &property, int tier) const = 0;
    // seconds after which a run counts as hung
    virtual int watchdog_s(const std::string &property) const { (void)property; return 30; }
    // which library variants ("asan", "asanub", "plain") the property needs; first is the default
    virtual std::string variant(const std::string &property) const { (void)property; return "asan"; }
    // once per worker process, before any run (build the template)
    virtual void setup(const std::string &property, int tier) { (void)property; (void)tier; }
    // pure function of the seed: swarm configuration + plan
    virtual Json generate(const std::string &property, uint64_t run_seed, int tier) = 0;
    // same, for worlds that enumerate a finite space by run index before falling back to the seed
    virtual Json generate_indexed(const std::string &property, uint64_t run_seed, int tier, int64_t index)
    {
        (void)index;
        return generate(property, run_seed, tier);
    }
    // pure function of the plan and the code under test; runs in a forked child
    virtual void execute(const Json &plan, const Ctx &ctx) = 0;
    // when the child died during a run: abstract trigger for the crash class (from the plan and the note)
    virtual std::string crash_trigger(const Json &plan, int op, const std::string &note) const
    {
        (void)plan; (void)op; (void)note;
        return "-";
    }
    // false: an abnormal termination at this op lies outside the property's quantified domain (e.g. the
    // configuration was never accepted); it is tallied under other_observations, never reported
    virtual bool crash_in_domain(const std::string &property, const Json &plan, int op, const std::string &note) const
    {
        (void)property; (void)plan; (void)op; (void)note;
        return true;
    }
    // invariant id a crash during this plan is charged to
    virtual std::string crash_invariant(const std::string &property) const { return property + ".no_abnormal_termination"; }
    // argument simplifications tried after ddmin (each a complete candidate plan)
    virtual std::vector<Json> simplify(const Json &plan) const { (void)plan; return {}; }
    // name of the array that ddmin cuts
    virtual const char *ops_key() const { return "ops"; }
    // evidence texts
    virtual std::string level(const std::string &property) const { (void)property; return "exploration"; }
    virtual std::string rule(const std::string &property) const = 0;
    virtual Json components(const std::string &property) const = 0;
    virtual std::vector<std::string> assumptions(const std::string &property) const { (void)property; return {}; }
};

void register_world(World *w);
void watchdog_arm(int cpu_seconds); // for a process forked inside a run (a reference sibling): its own processor-time budget
std::string repo_root();   // SOUNDSWALLOWER_REPO or /repo
std::string verif_root();  // directory holding MANIFEST.json

} // namespace sim
