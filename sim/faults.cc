// Link-time seams (-Wl,--wrap=...): simulated file store and scripted voice-activity decisions.
#define _GNU_SOURCE 1
#include "faults.h"
#include <sys/syscall.h>
#include <unistd.h>
#include <cerrno>
#include <cstdio>

extern "C" {
#include <soundswallower/mmio.h>
#include <soundswallower/vad.h>

mmio_file_t *__real_mmio_file_read(const char *filename);
void *__real_mmio_file_ptr(mmio_file_t *mf);
uint64 __real_mmio_file_size(mmio_file_t *mf);
void __real_mmio_file_unmap(mmio_file_t *mf);
FILE *__real_fopen(const char *path, const char *mode);
vad_class_t __real_vad_classify(vad_t *vad, const int16 *frame);

// Sanitizer defaults: see DESIGN.md 3.5.  Non-inline on purpose.
__attribute__((used, visibility("default"))) const char *__asan_default_options()
{
    return "exitcode=77:detect_leaks=0:allocator_may_return_null=1:max_allocation_size_mb=2048:abort_on_error=0:"
           "handle_abort=0:detect_stack_use_after_return=0:symbolize=1:print_summary=0:malloc_context_size=8";
}
__attribute__((used, visibility("default"))) const char *__ubsan_default_options()
{
    return "print_stacktrace=1:halt_on_error=1:exitcode=77";
}
}

namespace sim {
namespace vfs {

namespace {
struct Fake {
    char *ptr;
    size_t size;
};
bool g_on = false;
bool g_real_store = false;
int64_t g_real_maps = 0;
std::map<std::string, std::string> g_cache;   // real files read once
std::map<std::string, std::string> g_virtual; // files that exist only here
std::vector<Fault> g_faults;
std::map<std::string, int64_t> g_fired;
std::set<void *> g_fakes;
std::string g_last;
int64_t g_opens = 0;
void (*g_cb)(const char *) = nullptr;

bool ends_with(const std::string &s, const std::string &suf)
{
    return s.size() >= suf.size() && s.compare(s.size() - suf.size(), suf.size(), suf) == 0;
}

bool read_real(const std::string &path, std::string &out)
{
    FILE *f = __real_fopen(path.c_str(), "rb");
    if (!f)
        return false;
    char buf[65536];
    size_t n;
    out.clear();
    while ((n = fread(buf, 1, sizeof buf, f)) > 0)
        out.append(buf, n);
    fclose(f);
    return true;
}
} // namespace

void activate(bool on) { g_on = on; }
void real_store(bool on) { g_real_store = on; }
int64_t real_maps() { return g_real_maps; }
void set_image(const std::string &path, const std::string &bytes) { g_virtual[path] = bytes; }
void remove_image(const std::string &path) { g_virtual.erase(path); }
void preload(const std::string &path)
{
    std::string s;
    if (!g_cache.count(path) && read_real(path, s))
        g_cache[path] = s;
}
bool pristine(const std::string &path, std::string &out)
{
    auto v = g_virtual.find(path);
    if (v != g_virtual.end()) {
        out = v->second;
        return true;
    }
    auto c = g_cache.find(path);
    if (c != g_cache.end()) {
        out = c->second;
        return true;
    }
    if (!read_real(path, out))
        return false;
    g_cache[path] = out;
    return true;
}
void add_fault(const Fault &f) { g_faults.push_back(f); }
void clear_faults() { g_faults.clear(); }
std::map<std::string, int64_t> &fired() { return g_fired; }
const std::string &last_opened() { return g_last; }
int64_t opens() { return g_opens; }
void on_open(void (*cb)(const char *)) { g_cb = cb; }

bool apply(const std::string &path, std::string &b, bool via_fopen, int64_t *short_read_at, int64_t *eio_at)
{
    if (short_read_at)
        *short_read_at = -1;
    if (eio_at)
        *eio_at = -1;
    for (const Fault &f : g_faults) {
        if (!ends_with(path, f.target))
            continue;
        if (f.fopen_only && !via_fopen)
            continue;
        int64_t n = (int64_t)b.size();
        int64_t off = f.off;
        if (f.kind == "enoent") {
            g_fired["enoent"]++;
            errno = ENOENT;
            return false;
        } else if (f.kind == "truncate") {
            if (off < 0) off = 0;
            if (off < n) {
                b.resize((size_t)off);
                g_fired["truncate"]++;
            }
        } else if (f.kind == "flip_bit") {
            if (n > 0) {
                off = ((off % n) + n) % n;
                b[(size_t)off] = (char)(b[(size_t)off] ^ (1 << (f.val & 7)));
                g_fired["flip_bit"]++;
            }
        } else if (f.kind == "set_byte") {
            if (n > 0) {
                off = ((off % n) + n) % n;
                b[(size_t)off] = (char)f.val;
                g_fired["set_byte"]++;
            }
        } else if (f.kind == "set_i32") {
            if (off >= 0 && off + 4 <= n) {
                int32_t v = (int32_t)f.val;
                memcpy(&b[(size_t)off], &v, 4);
                g_fired["set_i32"]++;
            }
        } else if (f.kind == "zero_block") {
            if (off >= 0 && off < n) {
                int64_t l = std::min<int64_t>(f.len, n - off);
                memset(&b[(size_t)off], 0, (size_t)l);
                g_fired["zero_block"]++;
            }
        } else if (f.kind == "dup_block") {
            if (off >= 0 && off < n) {
                int64_t l = std::min<int64_t>(f.len, n - off);
                b.insert((size_t)off, b.substr((size_t)off, (size_t)l));
                g_fired["dup_block"]++;
            }
        } else if (f.kind == "del_block") {
            if (off >= 0 && off < n) {
                int64_t l = std::min<int64_t>(f.len, n - off);
                b.erase((size_t)off, (size_t)l);
                g_fired["del_block"]++;
            }
        } else if (f.kind == "insert") {
            if (off < 0) off = 0;
            if (off > n) off = n;
            b.insert((size_t)off, f.data);
            g_fired["insert"]++;
        } else if (f.kind == "append") {
            b += f.data;
            g_fired["append"]++;
        } else if (f.kind == "replace") {
            b = f.data;
            g_fired["replace"]++;
        } else if (f.kind == "short_read") {
            if (via_fopen && short_read_at) {
                *short_read_at = off;
                g_fired["short_read"]++;
            }
        } else if (f.kind == "eio") {
            if (via_fopen && eio_at) {
                *eio_at = off;
                g_fired["eio"]++;
            }
        }
    }
    return true;
}

namespace {
bool has_fault_for(const std::string &path)
{
    for (const Fault &f : g_faults)
        if (ends_with(path, f.target))
            return true;
    return false;
}

struct Cookie {
    std::string data;
    size_t pos = 0;
    int64_t eio_at = -1;
    int64_t short_at = -1; // after this offset every read returns at most 1 byte... and then EOF at short_at
};
ssize_t ck_read(void *c, char *buf, size_t n)
{
    Cookie *k = (Cookie *)c;
    if (k->eio_at >= 0 && (int64_t)k->pos >= k->eio_at) {
        errno = EIO;
        return -1;
    }
    size_t lim = k->data.size();
    if (k->short_at >= 0 && (size_t)k->short_at < lim)
        lim = (size_t)k->short_at; // stream ends early
    if (k->eio_at >= 0 && (size_t)k->eio_at < lim)
        lim = (size_t)k->eio_at; // deliver up to the error point first
    if (k->pos >= lim) {
        if (k->eio_at >= 0 && (int64_t)k->pos >= k->eio_at) {
            errno = EIO;
            return -1;
        }
        return 0;
    }
    size_t m = std::min(n, lim - k->pos);
    memcpy(buf, k->data.data() + k->pos, m);
    k->pos += m;
    return (ssize_t)m;
}
int ck_seek(void *c, off64_t *off, int whence)
{
    Cookie *k = (Cookie *)c;
    int64_t base = whence == SEEK_SET ? 0 : whence == SEEK_CUR ? (int64_t)k->pos : (int64_t)k->data.size();
    int64_t np = base + *off;
    if (np < 0 || np > (int64_t)k->data.size())
        return -1;
    k->pos = (size_t)np;
    *off = np;
    return 0;
}
int ck_close(void *c)
{
    delete (Cookie *)c;
    return 0;
}
} // namespace

} // namespace vfs

namespace vadscript {
namespace {
std::vector<int> g_script, g_rec;
size_t g_pos = 0;
bool g_record = false;
int64_t g_consumed = 0;
} // namespace
void set(const std::vector<int> &d)
{
    g_script = d;
    g_pos = 0;
}
void clear()
{
    g_script.clear();
    g_pos = 0;
    g_rec.clear();
    g_record = false;
}
void record(bool on) { g_record = on; }
const std::vector<int> &recorded() { return g_rec; }
int64_t consumed() { return g_consumed; }
} // namespace vadscript
} // namespace sim

using namespace sim;

extern "C" {

mmio_file_t *__wrap_mmio_file_read(const char *filename)
{
    if (!vfs::g_on)
        return __real_mmio_file_read(filename);
    if (filename == nullptr) // the library does call s3file_map_file(NULL) (e.g. -mixw unset)
        return nullptr;
    std::string path = filename;
    vfs::g_last = path;
    vfs::g_opens++;
    if (vfs::g_cb)
        vfs::g_cb(filename);
    std::string bytes;
    if (!vfs::pristine(path, bytes)) {
        errno = ENOENT;
        return nullptr;
    }
    if (!vfs::apply(path, bytes, false, nullptr, nullptr))
        return nullptr;
    if (vfs::g_real_store) {
        // the faulted image becomes a real (anonymous, memory-backed) file and goes through src/mmio.c itself:
        // open/fstat/mmap/close run for real, the image is never on disk, nothing outlives the call
        int mfd = (int)syscall(SYS_memfd_create, "simfile", 0u);
        if (mfd < 0)
            return nullptr;
        size_t done = 0;
        while (done < bytes.size()) {
            ssize_t w = write(mfd, bytes.data() + done, bytes.size() - done);
            if (w <= 0)
                break;
            done += (size_t)w;
        }
        char real[64];
        snprintf(real, sizeof real, "/proc/self/fd/%d", mfd);
        mmio_file_t *mf = done == bytes.size() ? __real_mmio_file_read(real) : nullptr;
        close(mfd);
        vfs::g_real_maps++;
        return mf;
    }
    if (bytes.empty()) { // mmap(.., 0, ..) fails with EINVAL
        errno = EINVAL;
        return nullptr;
    }
    vfs::Fake *f = (vfs::Fake *)malloc(sizeof(vfs::Fake));
    f->size = bytes.size();
    f->ptr = (char *)malloc(bytes.size()); // exact size: one byte past the file is an ASan error
    memcpy(f->ptr, bytes.data(), bytes.size());
    vfs::g_fakes.insert(f);
    return (mmio_file_t *)f;
}

void *__wrap_mmio_file_ptr(mmio_file_t *mf)
{
    if (vfs::g_fakes.count(mf))
        return ((vfs::Fake *)mf)->ptr;
    return __real_mmio_file_ptr(mf);
}

uint64 __wrap_mmio_file_size(mmio_file_t *mf)
{
    if (vfs::g_fakes.count(mf))
        return ((vfs::Fake *)mf)->size;
    return __real_mmio_file_size(mf);
}

void __wrap_mmio_file_unmap(mmio_file_t *mf)
{
    if (mf == nullptr)
        return;
    if (vfs::g_fakes.count(mf)) {
        vfs::g_fakes.erase(mf);
        free(((vfs::Fake *)mf)->ptr);
        free(mf);
        return;
    }
    __real_mmio_file_unmap(mf);
}

FILE *__wrap_fopen(const char *path, const char *mode)
{
    if (!vfs::g_on || path == nullptr || mode == nullptr || mode[0] != 'r')
        return __real_fopen(path, mode);
    std::string p = path;
    bool virt = vfs::g_virtual.count(p) != 0;
    if (!virt && !vfs::has_fault_for(p)) {
        // pass through, but still an observable open
        vfs::g_last = p;
        vfs::g_opens++;
        if (vfs::g_cb)
            vfs::g_cb(path);
        return __real_fopen(path, mode);
    }
    vfs::g_last = p;
    vfs::g_opens++;
    if (vfs::g_cb)
        vfs::g_cb(path);
    std::string bytes;
    if (!vfs::pristine(p, bytes)) {
        errno = ENOENT;
        return nullptr;
    }
    vfs::Cookie *ck = new vfs::Cookie;
    if (!vfs::apply(p, bytes, true, &ck->short_at, &ck->eio_at)) {
        delete ck;
        return nullptr;
    }
    ck->data = bytes;
    cookie_io_functions_t io;
    io.read = vfs::ck_read;
    io.write = nullptr;
    io.seek = vfs::ck_seek;
    io.close = vfs::ck_close;
    FILE *f = fopencookie(ck, "r", io);
    if (!f)
        delete ck;
    return f;
}

vad_class_t __wrap_vad_classify(vad_t *vad, const int16 *frame)
{
    using namespace vadscript;
    g_consumed++;
    if (!g_script.empty() && g_pos < g_script.size())
        return (vad_class_t)g_script[g_pos++];
    vad_class_t r = __real_vad_classify(vad, frame);
    if (g_record)
        g_rec.push_back((int)r);
    return r;
}
}
