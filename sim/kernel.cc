// Runner, crash classifier, minimiser, replay, evidence writer.  See DESIGN.md section 3 and 8.
#include "kernel.h"
#include <algorithm>
#include <cerrno>
#include <cmath>
#include <csignal>
#include <ctime>
#include <fcntl.h>
#include <poll.h>
#include <sys/mman.h>
#include <sys/stat.h>
#include <sys/time.h>
#include <sys/wait.h>
#include <unistd.h>
#include <execinfo.h>
#if defined(__has_feature)
#if __has_feature(address_sanitizer)
#include <sanitizer/common_interface_defs.h>
#define SIM_HAVE_SYMBOLIZER 1
#endif
#endif

namespace sim {

static std::vector<World *> &worlds()
{
    static std::vector<World *> w;
    return w;
}
void register_world(World *w) { worlds().push_back(w); }

std::string repo_root()
{
    const char *e = getenv("SOUNDSWALLOWER_REPO");
    return e && *e ? e : "/repo";
}
std::string verif_root()
{
    const char *e = getenv("VERIF_ROOT");
    return e && *e ? e : "/verif";
}

static World *world_for(const std::string &prop)
{
    for (World *w : worlds())
        for (auto &p : w->properties())
            if (p == prop)
                return w;
    return nullptr;
}

static double now_s()
{
    struct timespec ts;
    clock_gettime(CLOCK_MONOTONIC, &ts);
    return ts.tv_sec + ts.tv_nsec * 1e-9;
}

static std::string hex64(uint64_t v)
{
    char b[20];
    snprintf(b, sizeof b, "%016llx", (unsigned long long)v);
    return b;
}

static uint64_t run_seed(uint64_t root, const std::string &prop, int64_t idx)
{
    uint64_t x = root ^ fnv1a(prop) ^ (uint64_t)idx * 0x9e3779b97f4a7c15ULL;
    return splitmix64(x);
}

// ---------------------------------------------------------------- shared page
struct Shared {
    volatile int64_t pos;    // position in the spec list of the run in progress
    volatile int32_t phase;  // 1 while a run executes
    volatile int32_t cur_op; // op about to execute
    char note[256];
};

static Shared *new_shared()
{
    void *p = mmap(nullptr, 4096, PROT_READ | PROT_WRITE, MAP_SHARED | MAP_ANONYMOUS, -1, 0);
    if (p == MAP_FAILED) {
        perror("mmap");
        exit(2);
    }
    memset(p, 0, 4096);
    return (Shared *)p;
}

// ---------------------------------------------------------------- result lines
static Json map_json(const std::map<std::string, int64_t> &m)
{
    Json j = Json::object();
    for (auto &kv : m)
        j.set(kv.first, Json((long long)kv.second));
    return j;
}

static Json viol_json(const Violation &v)
{
    Json j = Json::object();
    j.set("invariant", v.invariant);
    j.set("kind", v.kind);
    j.set("site", v.site);
    j.set("trigger", v.trigger);
    j.set("detail", v.detail.size() > 600 ? v.detail.substr(0, 600) : v.detail);
    j.set("op", v.op);
    return j;
}

static Violation viol_from(const Json &j)
{
    Violation v;
    v.invariant = j.gets("invariant");
    v.kind = j.gets("kind");
    v.site = j.gets("site");
    v.trigger = j.gets("trigger");
    v.detail = j.gets("detail");
    v.op = (int)j.geti("op", -1);
    return v;
}

static std::string core_of(const Violation &v) { return v.invariant + "|" + v.kind + "|" + v.site; }

struct RunSpec {
    int64_t idx = 0;
    uint64_t seed = 0;
    const Json *plan = nullptr; // null: generate from seed
    bool recheck = false;
    bool want_plan = false;
};

static void write_all(int fd, const std::string &s)
{
    size_t off = 0;
    while (off < s.size()) {
        ssize_t n = write(fd, s.data() + off, s.size() - off);
        if (n < 0) {
            if (errno == EINTR)
                continue;
            _exit(3);
        }
        off += (size_t)n;
    }
}

static std::string outcome_line(const RunSpec &sp, uint64_t plan_digest, const Outcome &o, const Json *plan)
{
    Json j = Json::object();
    j.set("i", (long long)sp.idx);
    j.set("seed", hex64(sp.seed));
    j.set("pd", hex64(plan_digest));
    j.set("ed", hex64(o.events.h));
    j.set("td", hex64(o.trace.h));
    j.set("nt", o.nontrivial ? 1 : 0);
    j.set("ss", o.sim_seconds);
    j.set("ck", (long long)o.checks);
    if (sp.recheck)
        j.set("rc", 1);
    if (!o.faults.empty())
        j.set("f", map_json(o.faults));
    if (!o.probes.empty())
        j.set("p", map_json(o.probes));
    if (!o.other.empty())
        j.set("o", map_json(o.other));
    if (!o.violations.empty()) {
        Json a = Json::array();
        std::set<std::string> seen;
        for (auto &v : o.violations) { // one entry per class per run
            if (!seen.insert(v.cls()).second)
                continue;
            a.push(viol_json(v));
            if (a.a.size() >= 8)
                break;
        }
        j.set("v", a);
    }
    if (plan)
        j.set("plan", *plan);
    return j.dump() + "\n";
}

// ---------------------------------------------------------------- crash classification
static std::string read_fd_all(int fd)
{
    std::string s;
    char buf[8192];
    off_t end = lseek(fd, 0, SEEK_END);
    (void)end;
    lseek(fd, 0, SEEK_SET);
    for (;;) {
        ssize_t n = read(fd, buf, sizeof buf);
        if (n <= 0)
            break;
        s.append(buf, (size_t)n);
        if (s.size() > (1u << 20))
            break;
    }
    return s;
}

static std::string strip_digits(const std::string &s)
{
    std::string o;
    bool last = false;
    for (char c : s) {
        if ((c >= '0' && c <= '9')) {
            if (!last)
                o += '#';
            last = true;
        } else {
            o += c;
            last = false;
        }
    }
    return o;
}

// first "in <func> <path>" frame whose path lies in the library sources
static std::string first_repo_frame(const std::string &err)
{
    std::string r1 = "/src/", r2 = "/include/soundswallower/";
    size_t p = 0;
    while ((p = err.find("\n    #", p)) != std::string::npos) {
        size_t eol = err.find('\n', p + 1);
        std::string ln = err.substr(p + 1, eol == std::string::npos ? std::string::npos : eol - p - 1);
        p = eol == std::string::npos ? err.size() : eol;
        size_t in = ln.find(" in ");
        if (in == std::string::npos)
            continue;
        size_t sp = ln.find(' ', in + 4);
        if (sp == std::string::npos)
            continue;
        std::string fn = ln.substr(in + 4, sp - in - 4);
        std::string path = ln.substr(sp + 1);
        if (path.find("/verif/sim/") != std::string::npos)
            continue;
        if (path.find(repo_root()) != std::string::npos && (path.find(r1) != std::string::npos || path.find(r2) != std::string::npos))
            return fn;
    }
    return "-";
}

static void classify_ubsan(const std::string &err, Violation &v)
{
    size_t r = err.find("runtime error:");
    size_t eol = err.find('\n', r);
    std::string msg = err.substr(r + 15, eol - r - 15);
    // first three words name the check
    std::string w;
    int words = 0;
    for (char c : msg) {
        if (c == ' ') {
            if (++words == 3)
                break;
            w += '-';
        } else if (c == ':')
            break;
        else
            w += c;
    }
    v.kind = "crash:ubsan:" + strip_digits(w);
    v.site = first_repo_frame(err.substr(r > 200 ? r - 200 : 0));
    if (v.site == "-") {
        // "<path>/file.c:LINE:COL: runtime error" -> file
        size_t ls = err.rfind('\n', r);
        std::string head = err.substr(ls == std::string::npos ? 0 : ls + 1, r - (ls == std::string::npos ? 0 : ls + 1));
        size_t sl = head.rfind('/');
        size_t co = head.find(':', sl == std::string::npos ? 0 : sl);
        if (co != std::string::npos)
            v.site = head.substr(sl == std::string::npos ? 0 : sl + 1, co - (sl == std::string::npos ? 0 : sl + 1));
    }
    v.detail = msg;
}

// ---- where a run spent its time when its watchdog expired.
// The watchdog is a sampling profiler on the run's own processor time: every quarter second of CPU the handler notes
// the raw return addresses of the stack; when the budget is used up the dying child writes the samples ("HANGPC ...",
// one line each) and the parent, whose address space the child inherited, resolves them.  The site of one sample is
// the function through which the run entered the module it was in: the innermost library frame outside the
// general-purpose containers, then outwards while the frames stay in the same source file (that names
// fsg_model_null_trans_closure whether the sample fell in the loop itself, in a helper of the same file or in a
// hash-table call below it).  The site of the hang is the most frequent sample site, i.e. where the time went, not
// where the run happened to be at the last instant.
static const int HANG_TICK_US = 250000, HANG_DEPTH = 40, HANG_KEEP = 160;
static void *g_hang_pcs[HANG_KEEP][HANG_DEPTH];
static int g_hang_n[HANG_KEEP];
static volatile long g_hang_ticks = 0, g_hang_limit = 0;

static void hang_dump_and_die(int sig)
{
    static char buf[HANG_DEPTH * 20 + 16];
    long have = g_hang_ticks < HANG_KEEP ? g_hang_ticks : HANG_KEEP;
    for (long sidx = 0; sidx < have; ++sidx) {
        size_t o = 0;
        memcpy(buf + o, "\nHANGPC", 7);
        o += 7;
        for (int i = 0; i < g_hang_n[sidx]; ++i) {
            uintptr_t v = (uintptr_t)g_hang_pcs[sidx][i];
            buf[o++] = ' ';
            for (int sh = 60; sh >= 0; sh -= 4)
                buf[o++] = "0123456789abcdef"[(v >> sh) & 15];
        }
        buf[o++] = '\n';
        if (write(2, buf, o) < 0) {}
    }
    signal(sig, SIG_DFL);
    raise(sig);
}

static void hang_handler(int sig)
{
    if (sig == SIGPROF) {
        long t = g_hang_ticks;
        int slot = (int)(t % HANG_KEEP);
        g_hang_n[slot] = backtrace(g_hang_pcs[slot], HANG_DEPTH);
        g_hang_ticks = t + 1;
        if (g_hang_limit <= 0 || g_hang_ticks < g_hang_limit)
            return;
    } else if (g_hang_ticks == 0) { // wall-clock backstop with no CPU used: note where the run is blocked
        g_hang_n[0] = backtrace(g_hang_pcs[0], HANG_DEPTH);
        g_hang_ticks = 1;
    }
    hang_dump_and_die(sig);
}

static void hang_arm(int budget_s)
{
    g_hang_ticks = 0;
    g_hang_limit = (long)budget_s * (1000000 / HANG_TICK_US);
    struct itimerval it;
    memset(&it, 0, sizeof it);
    it.it_value.tv_usec = it.it_interval.tv_usec = HANG_TICK_US;
    setitimer(ITIMER_PROF, &it, nullptr);
    alarm((unsigned)budget_s * 20);
}

static void hang_disarm()
{
    struct itimerval it;
    memset(&it, 0, sizeof it);
    setitimer(ITIMER_PROF, &it, nullptr);
    alarm(0);
    g_hang_limit = 0;
}

void watchdog_arm(int cpu_seconds) { hang_arm(cpu_seconds); }

static void hang_install()
{
    struct sigaction sa;
    memset(&sa, 0, sizeof sa);
    sa.sa_handler = hang_handler;
    sa.sa_flags = SA_RESTART;
    sigemptyset(&sa.sa_mask);
    sigaction(SIGPROF, &sa, nullptr);
    sigaction(SIGALRM, &sa, nullptr);
}

static std::string sample_site(const std::string &line)
{
#ifdef SIM_HAVE_SYMBOLIZER
    std::vector<std::pair<std::string, std::string>> frames; // (function, file basename), innermost first, library frames only
    size_t p = 0;
    int idx = 0;
    while (p < line.size()) {
        while (p < line.size() && line[p] == ' ')
            ++p;
        size_t q = line.find(' ', p);
        std::string h = line.substr(p, q == std::string::npos ? std::string::npos : q - p);
        p = q == std::string::npos ? line.size() : q;
        if (h.empty())
            break;
        uintptr_t pc = (uintptr_t)strtoull(h.c_str(), nullptr, 16);
        char out[4096];
        memset(out, 0, sizeof out);
        __sanitizer_symbolize_pc((void *)(pc - (idx > 2 ? 1 : 0)), "%f\t%s", out, sizeof out - 2);
        ++idx;
        for (const char *c = out; *c; c += strlen(c) + 1) { // one string per (inlined) frame
            std::string fr = c;
            size_t t = fr.find('\t');
            if (t == std::string::npos)
                continue;
            std::string fn = fr.substr(0, t), file = fr.substr(t + 1);
            if (file.find("/src/") == std::string::npos || file.find("/sim/") != std::string::npos)
                continue;
            size_t sl = file.rfind('/');
            frames.emplace_back(fn, file.substr(sl + 1));
        }
    }
    static const char *utility[] = { "hash_table.c", "glist.c", "listelem_alloc.c", "ckd_alloc.c", "err.c", "strfuncs.c", "logmath.c", "bitvec.c", "heap.c", "case.c", "filename.c", nullptr };
    auto is_util = [&](const std::string &f) {
        for (int i = 0; utility[i]; ++i)
            if (f == utility[i])
                return true;
        return false;
    };
    size_t k = 0;
    while (k < frames.size() && is_util(frames[k].second))
        ++k;
    if (k == frames.size())
        return frames.empty() ? "" : frames.back().first;
    size_t m = k;
    while (m + 1 < frames.size() && frames[m + 1].second == frames[k].second)
        ++m;
    return frames[m].first;
#else
    (void)line;
    return "";
#endif
}

static std::string hang_site(const std::string &err)
{
    std::map<std::string, int> votes;
    std::map<std::string, std::string> cache; // raw line -> site (a tight loop gives many identical samples)
    size_t a = 0;
    while ((a = err.find("HANGPC", a)) != std::string::npos) {
        size_t e = err.find('\n', a);
        std::string line = err.substr(a + 6, e == std::string::npos ? std::string::npos : e - a - 6);
        a = e == std::string::npos ? err.size() : e;
        auto it = cache.find(line);
        if (it == cache.end())
            it = cache.emplace(line, sample_site(line)).first;
        if (!it->second.empty())
            votes[it->second]++;
    }
    std::string best = "-";
    int n = 0;
    for (auto &kv : votes)
        if (kv.second > n) {
            n = kv.second;
            best = kv.first;
        }
    return best;
}

static void classify_death(int status, const std::string &err, Violation &v)
{
    v.site = "-";
    v.detail = "";
    if (WIFSIGNALED(status)) {
        int sig = WTERMSIG(status);
        if (sig == SIGALRM || sig == SIGPROF) {
            v.kind = "hang";
            v.site = hang_site(err);
            v.detail = "watchdog expired in " + v.site;
            return;
        }
        if (sig == SIGABRT) {
            size_t a = err.rfind("Assertion `");
            if (a != std::string::npos) {
                // "<prog>: <file>:<line>: <func>: Assertion `expr' failed."
                size_t ls = err.rfind('\n', a);
                std::string ln = err.substr(ls == std::string::npos ? 0 : ls + 1, err.find('\n', a) - (ls == std::string::npos ? 0 : ls + 1));
                size_t e2 = ln.find(": Assertion `");
                std::string head = ln.substr(0, e2);
                size_t f = head.rfind(": ");
                v.kind = "crash:assert";
                v.site = f == std::string::npos ? head : head.substr(f + 2);
                { // "int fn(args)" (clang) or "fn" (gcc) -> fn
                    size_t par = v.site.find('(');
                    if (par != std::string::npos)
                        v.site.resize(par);
                    size_t sp = v.site.find_last_of(" *");
                    if (sp != std::string::npos)
                        v.site = v.site.substr(sp + 1);
                }
                v.detail = ln;
                return;
            }
            if (err.find("runtime error:") != std::string::npos) {
                classify_ubsan(err, v);
                return;
            }
            v.kind = "crash:signal:6";
            v.detail = err.size() > 400 ? err.substr(err.size() - 400) : err;
            return;
        }
        v.kind = "crash:signal:" + std::to_string(sig);
        v.detail = err.size() > 400 ? err.substr(err.size() - 400) : err;
        return;
    }
    {
        int code = WIFEXITED(status) ? WEXITSTATUS(status) : -1;
        size_t a = err.find("ERROR: AddressSanitizer: ");
        if (a != std::string::npos) {
            size_t s = a + strlen("ERROR: AddressSanitizer: ");
            size_t e = err.find_first_of(" \n", s);
            std::string ty = err.substr(s, e - s);
            if (ty == "attempting") { // "attempting double-free" / "attempting free on address which was not malloc()-ed"
                size_t e2 = err.find_first_of(" \n", e + 1);
                ty = err.substr(e + 1, e2 - e - 1);
                if (ty == "free")
                    ty = "bad-free";
            }
            if (ty == "requested")
                ty = "allocation-size-too-big";
            v.kind = "crash:asan:" + ty;
            v.site = first_repo_frame(err.substr(a));
            size_t eol = err.find('\n', a);
            v.detail = err.substr(a, eol - a);
            size_t oa = v.detail.find(" on address"); // addresses vary with ASLR: keep them out of files
            if (oa != std::string::npos)
                v.detail.resize(oa);
            return;
        }
        if (err.find("runtime error:") != std::string::npos) {
            classify_ubsan(err, v);
            return;
        }
        size_t f = err.rfind("FATAL: \"");
        if (f != std::string::npos) {
            size_t q = err.find('"', f + 8);
            v.kind = "exit:fatal";
            v.site = err.substr(f + 8, q - f - 8);
            size_t eol = err.find('\n', f);
            v.detail = err.substr(f, eol == std::string::npos ? std::string::npos : eol - f);
            return;
        }
        size_t c = err.rfind(") failed from ");
        if (c != std::string::npos) {
            size_t s = c + strlen(") failed from ");
            size_t e = err.find('(', s);
            std::string path = err.substr(s, e - s);
            size_t sl = path.rfind('/');
            v.kind = "exit:alloc";
            v.site = sl == std::string::npos ? path : path.substr(sl + 1);
            size_t ls = err.rfind('\n', c);
            v.detail = err.substr(ls == std::string::npos ? 0 : ls + 1, err.find('\n', c) - (ls == std::string::npos ? 0 : ls + 1));
            return;
        }
        v.kind = "exit:" + std::to_string(code);
        v.detail = err.size() > 400 ? err.substr(err.size() - 400) : err;
    }
}

// ---------------------------------------------------------------- child execution
struct Exec {
    World *w = nullptr;
    std::string prop;
    int tier = 0;
    Shared *sh = nullptr;
    int errfd = -1; // memfd capturing the child's stderr
    int devnull = -1;
    bool harness_fault = false;
    std::string harness_msg;
    std::string last_err; // captured stderr of the last child that died
    bool confirm = false; // confirming a violation (shrinker, replay): tighter watchdog, see run_child
};

static void exec_init(Exec &x, World *w, const std::string &prop, int tier)
{
    x.w = w;
    x.prop = prop;
    x.tier = tier;
    x.sh = new_shared();
    x.errfd = memfd_create("sim-stderr", 0);
    x.devnull = open("/dev/null", O_WRONLY);
    if (x.errfd < 0 || x.devnull < 0) {
        perror("memfd/devnull");
        exit(2);
    }
}

// Executes specs[from..] in one forked child writing result lines to out_fd; returns the number of specs
// completed.  If the child dies inside a run, a crash line for that run is written by the caller.
static size_t run_child(Exec &x, const std::vector<RunSpec> &specs, size_t from, int out_fd, int *status_out)
{
    x.sh->pos = (int64_t)from;
    x.sh->phase = 0;
    x.sh->cur_op = -1;
    x.sh->note[0] = 0;
    if (ftruncate(x.errfd, 0) != 0) {}
    lseek(x.errfd, 0, SEEK_SET);
    fflush(stdout);
    fflush(stderr);
    pid_t pid = fork();
    if (pid < 0) {
        perror("fork");
        exit(2);
    }
    if (pid == 0) {
        dup2(x.errfd, 2);
        dup2(x.devnull, 1);
        hang_install();
        signal(SIGPIPE, SIG_IGN);
        for (size_t k = from; k < specs.size(); ++k) {
            const RunSpec &sp = specs[k];
            if (ftruncate(2, 0) != 0) {}
            lseek(2, 0, SEEK_SET);
            x.sh->pos = (int64_t)k;
            x.sh->cur_op = -1;
            x.sh->note[0] = 0;
            x.sh->phase = 1;
            // the watchdog counts the run's own processor time (the library never blocks: all its I/O is simulated), so a
            // loaded machine cannot turn a slow run into a "hang"; the wall-clock alarm is only a distant backstop.  When a
            // violation is being confirmed (minimisation, replay) the budget is 80% of the sweep's, so that a run that
            // exceeded the budget in the sweep by a hair exceeds it here for certain
            hang_arm(x.confirm ? std::max(1, x.w->watchdog_s(x.prop) * 4 / 5) : x.w->watchdog_s(x.prop));
            Json gen;
            const Json *plan = sp.plan;
            if (!plan) {
                gen = x.w->generate_indexed(x.prop, sp.seed, x.tier, sp.idx);
                plan = &gen;
            }
            Outcome out;
            Ctx ctx;
            ctx.property = x.prop;
            ctx.tier = x.tier;
            ctx.out = &out;
            ctx.cur_op = &x.sh->cur_op;
            ctx.note = x.sh->note;
            x.w->execute(*plan, ctx);
            hang_disarm();
            x.sh->phase = 2;
            uint64_t pd = fnv1a(plan->dump());
            write_all(out_fd, outcome_line(sp, pd, out, sp.want_plan ? plan : nullptr));
            x.sh->phase = 0;
        }
        _exit(0);
    }
    int status = 0;
    while (waitpid(pid, &status, 0) < 0 && errno == EINTR) {}
    *status_out = status;
    if (WIFEXITED(status) && WEXITSTATUS(status) == 0)
        return specs.size() - from;
    return (size_t)(x.sh->pos - (int64_t)from); // specs completed before the one that died
}

static void run_specs(Exec &x, const std::vector<RunSpec> &specs, int out_fd)
{
    size_t from = 0;
    while (from < specs.size()) {
        int status = 0;
        size_t done = run_child(x, specs, from, out_fd, &status);
        from += done;
        if (from >= specs.size())
            break;
        // child died during specs[from]
        const RunSpec &sp = specs[from];
        int phase = x.sh->phase;
        std::string err = read_fd_all(x.errfd);
        x.last_err = err;
        if (phase == 2) { // died while writing its line: harness problem
            x.harness_fault = true;
            x.harness_msg = "child died while reporting run " + std::to_string(sp.idx);
            from++;
            continue;
        }
        Json gen;
        const Json *plan = sp.plan;
        if (!plan) {
            gen = x.w->generate_indexed(x.prop, sp.seed, x.tier, sp.idx);
            plan = &gen;
        }
        Outcome out;
        Violation v;
        classify_death(status, err, v);
        v.invariant = x.w->crash_invariant(x.prop);
        v.op = x.sh->cur_op;
        std::string note((const char *)x.sh->note, strnlen((const char *)x.sh->note, 255));
        v.trigger = x.w->crash_trigger(*plan, v.op, note);
        if (x.w->crash_in_domain(x.prop, *plan, v.op, note)) {
            out.violations.push_back(v);
            out.nontrivial = true;
        } else
            out.other["outside_domain:" + v.kind + ":" + v.site]++;
        // the event digest of a crashed run: class + op, so that reruns can be compared
        out.events.str(v.cls());
        out.events.i64(v.op);
        out.trace.str("crash");
        out.trace.str(core_of(v));
        uint64_t pd = fnv1a(plan->dump());
        write_all(out_fd, outcome_line(sp, pd, out, sp.want_plan ? plan : nullptr));
        from++;
    }
}

// Execute one plan in a forked child and return its parsed result line.
static Json exec_plan(Exec &x, const Json &plan, uint64_t seed = 0)
{
    int pfd[2];
    if (pipe(pfd) != 0) {
        perror("pipe");
        exit(2);
    }
    // make the pipe roomy: a result line can carry a plan
    fcntl(pfd[1], F_SETPIPE_SZ, 1 << 20);
    std::vector<RunSpec> specs(1);
    specs[0].idx = 0;
    specs[0].seed = seed;
    specs[0].plan = &plan;
    run_specs(x, specs, pfd[1]);
    close(pfd[1]);
    std::string s;
    char buf[65536];
    for (;;) {
        ssize_t n = read(pfd[0], buf, sizeof buf);
        if (n <= 0)
            break;
        s.append(buf, (size_t)n);
    }
    close(pfd[0]);
    Json j;
    std::string e;
    if (!Json::parse(s, j, &e)) {
        fprintf(stderr, "HARNESS-FAULT: unparsable result line (%s): %.200s\n", e.c_str(), s.c_str());
        exit(2);
    }
    return j;
}

static std::vector<Violation> viols_of(const Json &line)
{
    std::vector<Violation> r;
    for (auto &v : line["v"].a)
        r.push_back(viol_from(v));
    return r;
}

static bool has_core(const Json &line, const std::string &core, Violation *which = nullptr)
{
    for (auto &v : viols_of(line))
        if (core_of(v) == core) {
            if (which)
                *which = v;
            return true;
        }
    return false;
}

// ---------------------------------------------------------------- known findings
struct Known {
    std::string property, status, what, commit;
    Json cls;
    bool hit = false;
};

static std::vector<Known> load_known()
{
    std::vector<Known> r;
    std::string path = verif_root() + "/known_findings.json";
    FILE *f = fopen(path.c_str(), "rb");
    if (!f)
        return r;
    std::string s;
    char buf[4096];
    size_t n;
    while ((n = fread(buf, 1, sizeof buf, f)) > 0)
        s.append(buf, n);
    fclose(f);
    Json j;
    std::string e;
    if (!Json::parse(s, j, &e)) {
        fprintf(stderr, "HARNESS-FAULT: known_findings.json does not parse: %s\n", e.c_str());
        exit(2);
    }
    for (auto &k : j["findings"].a) {
        Known kn;
        kn.property = k.gets("property");
        kn.status = k.gets("status");
        kn.what = k.gets("what");
        kn.commit = k.gets("commit");
        kn.cls = k["class"];
        r.push_back(kn);
    }
    return r;
}

static bool known_matches(const Known &k, const std::string &prop, const Violation &v)
{
    if (k.property != prop || k.status != "known")
        return false;
    if (k.cls.gets("invariant") != v.invariant || k.cls.gets("kind") != v.kind || k.cls.gets("site") != v.site)
        return false;
    if (k.cls.has("trigger") && k.cls.gets("trigger") != v.trigger)
        return false;
    return true;
}

// ---------------------------------------------------------------- minimisation
struct Shrinker {
    Exec &x;
    std::string core;
    int budget = 300;
    double deadline = 0;
    int execs = 0;
    bool test(const Json &plan)
    {
        if (execs >= budget || now_s() > deadline)
            return false;
        ++execs;
        Json line = exec_plan(x, plan);
        return has_core(line, core);
    }
    Json with_ops(const Json &plan, const std::vector<Json> &ops)
    {
        Json p = plan;
        Json a = Json::array();
        for (auto &o : ops)
            a.push(o);
        p.set(x.w->ops_key(), a);
        return p;
    }
    Json ddmin(const Json &plan)
    {
        std::vector<Json> ops = plan[x.w->ops_key()].a;
        size_t n = 2;
        while (ops.size() >= 2) {
            size_t chunk = (ops.size() + n - 1) / n;
            bool reduced = false;
            // try removing each chunk (complement test)
            for (size_t start = 0; start < ops.size(); start += chunk) {
                std::vector<Json> cand;
                for (size_t k = 0; k < ops.size(); ++k)
                    if (k < start || k >= start + chunk)
                        cand.push_back(ops[k]);
                if (cand.empty())
                    continue;
                if (test(with_ops(plan, cand))) {
                    ops = cand;
                    n = n > 2 ? n - 1 : 2;
                    reduced = true;
                    break;
                }
                if (execs >= budget || now_s() > deadline)
                    return with_ops(plan, ops);
            }
            if (!reduced) {
                if (chunk == 1)
                    break;
                n = std::min(ops.size(), n * 2);
            }
        }
        return with_ops(plan, ops);
    }
    Json run(const Json &plan0)
    {
        Json plan = ddmin(plan0);
        for (int round = 0; round < 6; ++round) {
            bool changed = false;
            for (auto &cand : x.w->simplify(plan)) {
                if (cand.dump() == plan.dump())
                    continue;
                if (test(cand)) {
                    plan = cand;
                    changed = true;
                    break;
                }
                if (execs >= budget || now_s() > deadline)
                    break;
            }
            if (!changed)
                break;
            if (round % 2 == 1)
                plan = ddmin(plan);
        }
        return plan;
    }
};

static std::string self_exe()
{
    char buf[4096];
    ssize_t n = readlink("/proc/self/exe", buf, sizeof buf - 1);
    if (n <= 0)
        return "";
    buf[n] = 0;
    return buf;
}

static bool write_file(const std::string &path, const std::string &data)
{
    std::string tmp = path + ".tmp";
    FILE *f = fopen(tmp.c_str(), "wb");
    if (!f)
        return false;
    fwrite(data.data(), 1, data.size(), f);
    fclose(f);
    return rename(tmp.c_str(), path.c_str()) == 0;
}

static bool read_file(const std::string &path, std::string &out)
{
    FILE *f = fopen(path.c_str(), "rb");
    if (!f)
        return false;
    char buf[65536];
    size_t n;
    out.clear();
    while ((n = fread(buf, 1, sizeof buf, f)) > 0)
        out.append(buf, n);
    fclose(f);
    return true;
}

// Pretty-ish printing for files humans read: one op per line.
static std::string dump_pretty(const Json &j, int indent = 0)
{
    std::string pad(indent, ' ');
    if (j.t == Json::OBJ && indent < 4) {
        std::string s = "{\n";
        for (size_t n = 0; n < j.o.size(); ++n) {
            s += pad + " " + Json(j.o[n].first).dump() + ": " + dump_pretty(j.o[n].second, indent + 1);
            s += n + 1 < j.o.size() ? ",\n" : "\n";
        }
        return s + pad + "}";
    }
    if (j.t == Json::ARR && indent < 4 && !j.a.empty() && (j.a[0].t == Json::OBJ || j.a[0].t == Json::ARR)) {
        std::string s = "[\n";
        for (size_t n = 0; n < j.a.size(); ++n) {
            s += pad + "  " + j.a[n].dump();
            s += n + 1 < j.a.size() ? ",\n" : "\n";
        }
        return s + pad + " ]";
    }
    return j.dump();
}

// Runs in its own process.  Writes "OK <path>" / "NONDET <msg>" to fd.
static void shrink_one(World *w, const std::string &prop, int tier, uint64_t root_seed, int64_t idx, const Violation &target, int fd)
{
    Exec x;
    exec_init(x, w, prop, tier);
    x.confirm = true;
    w->setup(prop, tier);
    uint64_t seed = run_seed(root_seed, prop, idx);
    Json plan = w->generate_indexed(prop, seed, tier, idx);
    Json r1 = exec_plan(x, plan, seed), r2 = exec_plan(x, plan, seed);
    std::string core = core_of(target);
    if (r1.gets("ed") == r2.gets("ed") && (!has_core(r1, core) || !has_core(r2, core))) {
        // A memory-unsafe defect can die in another way in this process than in the sweep's worker (the wild read lands
        // elsewhere under another address-space layout).  If both re-executions here agree on a violation of the same
        // property, that one is minimised and reported instead; a known finding never takes this route.
        std::vector<Violation> a = viols_of(r1), b = viols_of(r2);
        if (!a.empty() && !b.empty() && a[0].cls() == b[0].cls()) {
            bool listed = false;
            for (auto &k : load_known())
                if (known_matches(k, prop, a[0]))
                    listed = true;
            if (!listed)
                core = core_of(a[0]);
        }
    }
    if (r1.gets("ed") != r2.gets("ed") || !has_core(r1, core) || !has_core(r2, core)) {
        std::string m = "NONDET run " + std::to_string(idx) + " class " + target.cls() + " digests " + r1.gets("ed") + " / " + r2.gets("ed") + " present " +
            (has_core(r1, core) ? "1" : "0") + (has_core(r2, core) ? "1" : "0") + "\n";
        write_all(fd, m);
        _exit(0);
    }
    Shrinker s { x, core };
    s.budget = 300;
    s.deadline = now_s() + 60;
    Json small = s.run(plan);
    Json fin = exec_plan(x, small, seed);
    Violation fv;
    if (!has_core(fin, core, &fv)) { // cannot happen unless nondeterministic
        write_all(fd, "NONDET minimised plan lost the violation for run " + std::to_string(idx) + "\n");
        _exit(0);
    }
    Json rep = Json::object();
    rep.set("v", 1);
    rep.set("property", prop);
    rep.set("world", w->name());
    rep.set("tier", tier ? "thorough" : "quick");
    rep.set("root_seed", (long long)root_seed);
    rep.set("run_index", (long long)idx);
    rep.set("run_seed", hex64(seed));
    rep.set("shrink_execs", s.execs);
    rep.set("ops_before", (long long)plan[w->ops_key()].a.size());
    rep.set("ops_after", (long long)small[w->ops_key()].a.size());
    Json ex = Json::object();
    ex.set("class", viol_json(fv));
    ex.set("digest", fin.gets("ed"));
    rep.set("expect", ex);
    rep.set("plan", small);
    char name[256];
    snprintf(name, sizeof name, "%s/replays/%s-%s-%s.json", verif_root().c_str(), prop.c_str(), hex64(seed).c_str(),
             hex64(fnv1a(core)).substr(0, 8).c_str());
    mkdir((verif_root() + "/replays").c_str(), 0777);
    if (!write_file(name, dump_pretty(rep) + "\n")) {
        write_all(fd, std::string("NONDET cannot write ") + name + "\n");
        _exit(0);
    }
    // fresh-process replay must reproduce
    fflush(stdout);
    pid_t pid = fork();
    if (pid == 0) {
        dup2(x.devnull, 1);
        dup2(x.devnull, 2);
        std::string exe = self_exe();
        execl(exe.c_str(), exe.c_str(), "--replay", name, (char *)nullptr);
        _exit(3);
    }
    int st = 0;
    while (waitpid(pid, &st, 0) < 0 && errno == EINTR) {}
    if (!(WIFEXITED(st) && WEXITSTATUS(st) == 1)) {
        write_all(fd, std::string("NONDET fresh-process replay of ") + name + " did not reproduce (status " + std::to_string(st) + ")\n");
        _exit(0);
    }
    write_all(fd, std::string("OK ") + name + "\t" + fv.cls() + "\t" + fv.detail.substr(0, 300) + "\n");
    _exit(0);
}

// ---------------------------------------------------------------- replay
static int do_replay(const std::string &path, bool verbose)
{
    std::string text;
    if (!read_file(path, text)) {
        fprintf(stderr, "cannot read %s\n", path.c_str());
        return 2;
    }
    Json rep;
    std::string e;
    if (!Json::parse(text, rep, &e)) {
        fprintf(stderr, "replay file does not parse: %s\n", e.c_str());
        return 2;
    }
    std::string prop = rep.gets("property");
    World *w = world_for(prop);
    if (!w) {
        fprintf(stderr, "no world serves %s\n", prop.c_str());
        return 2;
    }
    int tier = rep.gets("tier") == "thorough";
    Exec x;
    exec_init(x, w, prop, tier);
    x.confirm = true;
    w->setup(prop, tier);
    Json line = exec_plan(x, rep["plan"]);
    Violation want = viol_from(rep["expect"]["class"]), got;
    bool same = has_core(line, core_of(want), &got);
    if (!same && want.kind.compare(0, 11, "crash:asan:") == 0) {
        // a wild access is reported by the sanitizer according to what the address happens to hit in this process
        // (freed block, foreign block, unmapped page): the same invariant dying at the same site under the sanitizer
        // is the same violation, whatever the report's first word
        for (auto &v : viols_of(line))
            if (v.invariant == want.invariant && v.site == want.site && v.kind.compare(0, 11, "crash:asan:") == 0) {
                got = v;
                same = true;
                break;
            }
    }
    if (verbose) {
        printf("replay %s: property=%s world=%s digest=%s expected=%s\n", path.c_str(), prop.c_str(), w->name(), line.gets("ed").c_str(),
               rep["expect"].gets("digest").c_str());
        for (auto &v : viols_of(line))
            printf("  violation %s op=%d: %s\n", v.cls().c_str(), v.op, v.detail.c_str());
    }
    if (getenv("VERIF_SHOW_STDERR") && !x.last_err.empty())
        printf("---- captured stderr of the dying child ----\n%s\n----\n", x.last_err.c_str());
    if (same) {
        bool exact = line.gets("ed") == rep["expect"].gets("digest");
        printf("VIOLATION property=%s replay=%s\n", prop.c_str(), path.c_str());
        printf("  class %s%s\n  %s\n", got.cls().c_str(), exact ? " (digest identical)" : " (same class, digest differs: tree or harness changed since the file was written)",
               got.detail.c_str());
        return 1;
    }
    printf("NOT-REPRODUCED property=%s replay=%s (the expected class %s did not occur on this tree)\n", prop.c_str(), path.c_str(), want.cls().c_str());
    return 0;
}

// ---------------------------------------------------------------- sweep
struct Agg {
    int64_t evals = 0, checks = 0, nontrivial_runs = 0;
    std::set<std::string> distinct_plans, traces;
    std::map<std::string, int64_t> faults, probes, other;
    double sim_seconds = 0;
    struct Cls {
        Violation first;
        int64_t idx = -1;
        int64_t count = 0;
    };
    std::map<std::string, Cls> classes;
    std::map<int64_t, std::string> first_digest, recheck_digest;
    std::map<int64_t, Json> samples;
    int64_t rechecked = 0, mismatches = 0;
    std::vector<std::string> mismatch_notes;
};

static void merge(std::map<std::string, int64_t> &into, const Json &j)
{
    for (auto &kv : j.o)
        into[kv.first] += kv.second.num();
}

static void absorb(Agg &g, const Json &line)
{
    int64_t idx = line.geti("i");
    std::string vsig;
    for (auto &v : viols_of(line))
        vsig += v.cls() + ";";
    std::string sig = line.gets("ed") + "/" + vsig;
    if (line.geti("rc")) {
        g.recheck_digest[idx] = sig;
        return;
    }
    g.first_digest[idx] = sig;
    g.evals++;
    g.checks += line.geti("ck");
    g.sim_seconds += line.getd("ss");
    if (line.geti("nt")) {
        g.nontrivial_runs++;
        g.distinct_plans.insert(line.gets("pd"));
    }
    g.traces.insert(line.gets("td"));
    merge(g.faults, line["f"]);
    merge(g.probes, line["p"]);
    merge(g.other, line["o"]);
    // Only the FIRST violation of a run defines its class: later ones in the same run are usually
    // consequences (the reference model and the object have already diverged).
    for (auto &v : viols_of(line)) {
        auto &c = g.classes[v.cls()];
        c.count++;
        if (c.idx < 0 || idx < c.idx) {
            c.idx = idx;
            c.first = v;
        }
        break;
    }
    if (line.has("plan") && g.samples.size() < 64)
        g.samples[idx] = line["plan"];
}

static int nproc()
{
    long n = sysconf(_SC_NPROCESSORS_ONLN);
    return n < 1 ? 1 : (int)n;
}

static int do_sweep(const std::string &prop, int tier, int64_t runs, int workers, uint64_t root_seed, const std::string &digest_log, bool no_shrink)
{
    World *w = world_for(prop);
    if (!w) {
        fprintf(stderr, "no world serves property %s\n", prop.c_str());
        return 2;
    }
    double t0 = now_s();
    if (runs <= 0)
        runs = w->default_runs(prop, tier);
    if (workers <= 0)
        workers = std::min(16, nproc());
    if ((int64_t)workers > runs)
        workers = (int)runs;
    bool cheap = w->cheap(prop);
    int64_t recheck_total = std::min<int64_t>(runs, tier ? 200 : 32);
    printf("SEED %llu property=%s world=%s tier=%s runs=%lld workers=%d repo=%s\n", (unsigned long long)root_seed, prop.c_str(), w->name(),
           tier ? "thorough" : "quick", (long long)runs, workers, repo_root().c_str());
    fflush(stdout);

    std::vector<int> rfd(workers);
    std::vector<pid_t> pids(workers);
    for (int k = 0; k < workers; ++k) {
        int pfd[2];
        if (pipe(pfd) != 0) {
            perror("pipe");
            return 2;
        }
        fcntl(pfd[1], F_SETPIPE_SZ, 1 << 20);
        pid_t pid = fork();
        if (pid < 0) {
            perror("fork");
            return 2;
        }
        if (pid == 0) {
            close(pfd[0]);
            for (int q = 0; q < k; ++q)
                close(rfd[q]);
            Exec x;
            exec_init(x, w, prop, tier);
            w->setup(prop, tier);
            // interleaved slice: idx = k, k+W, ...
            std::vector<RunSpec> mine;
            for (int64_t i = k; i < runs; i += workers) {
                RunSpec sp;
                sp.idx = i;
                sp.seed = run_seed(root_seed, prop, i);
                sp.want_plan = mine.size() < 2; // first runs of every worker carry their plan (evidence samples)
                mine.push_back(sp);
            }
            size_t batch = cheap ? 256 : 1;
            for (size_t pos = 0; pos < mine.size(); pos += batch) {
                std::vector<RunSpec> b(mine.begin() + pos, mine.begin() + std::min(mine.size(), pos + batch));
                run_specs(x, b, pfd[1]);
            }
            // determinism sample: rerun the runs whose global index is below recheck_total, one child per batch,
            // in the *next* worker's slice (so the second execution happens in a different worker process)
            {
                std::vector<RunSpec> rc;
                int other = (k + 1) % workers;
                for (int64_t i = other; i < recheck_total; i += workers) {
                    RunSpec sp;
                    sp.idx = i;
                    sp.seed = run_seed(root_seed, prop, i);
                    sp.recheck = true;
                    rc.push_back(sp);
                }
                for (size_t pos = 0; pos < rc.size(); pos += batch) {
                    std::vector<RunSpec> b(rc.begin() + pos, rc.begin() + std::min(rc.size(), pos + batch));
                    run_specs(x, b, pfd[1]);
                }
            }
            if (x.harness_fault)
                write_all(pfd[1], "{\"harness_fault\":" + Json(x.harness_msg).dump() + "}\n");
            close(pfd[1]);
            _exit(0);
        }
        close(pfd[1]);
        rfd[k] = pfd[0];
        pids[k] = pid;
    }

    Agg g;
    bool harness_fault = false;
    std::string harness_msg;
    {
        std::vector<std::string> buf(workers);
        std::vector<bool> open(workers, true);
        int nopen = workers;
        std::vector<char> tmp(1 << 16);
        while (nopen > 0) {
            std::vector<struct pollfd> pf;
            std::vector<int> who;
            for (int k = 0; k < workers; ++k)
                if (open[k]) {
                    struct pollfd p;
                    p.fd = rfd[k];
                    p.events = POLLIN;
                    p.revents = 0;
                    pf.push_back(p);
                    who.push_back(k);
                }
            int pr = poll(pf.data(), pf.size(), 1000);
            if (pr < 0 && errno != EINTR) {
                perror("poll");
                return 2;
            }
            for (size_t q = 0; q < pf.size(); ++q) {
                if (!(pf[q].revents & (POLLIN | POLLHUP | POLLERR)))
                    continue;
                int k = who[q];
                ssize_t n = read(rfd[k], tmp.data(), tmp.size());
                if (n <= 0) {
                    open[k] = false;
                    nopen--;
                    close(rfd[k]);
                    continue;
                }
                buf[k].append(tmp.data(), (size_t)n);
                size_t nl;
                while ((nl = buf[k].find('\n')) != std::string::npos) {
                    std::string ln = buf[k].substr(0, nl);
                    buf[k].erase(0, nl + 1);
                    Json j;
                    std::string e;
                    if (!Json::parse(ln, j, &e)) {
                        harness_fault = true;
                        harness_msg = "unparsable result line: " + e;
                        continue;
                    }
                    if (j.has("harness_fault")) {
                        harness_fault = true;
                        harness_msg = j.gets("harness_fault");
                        continue;
                    }
                    absorb(g, j);
                }
            }
        }
        for (int k = 0; k < workers; ++k) {
            int st = 0;
            while (waitpid(pids[k], &st, 0) < 0 && errno == EINTR) {}
            if (!(WIFEXITED(st) && WEXITSTATUS(st) == 0)) {
                harness_fault = true;
                harness_msg = "worker " + std::to_string(k) + " ended with status " + std::to_string(st);
            }
        }
    }
    if (g.evals != runs) {
        harness_fault = true;
        harness_msg += " evaluations " + std::to_string(g.evals) + " != runs " + std::to_string(runs);
    }
    for (auto &kv : g.recheck_digest) {
        g.rechecked++;
        auto it = g.first_digest.find(kv.first);
        if (it == g.first_digest.end() || it->second != kv.second) {
            g.mismatches++;
            if (g.mismatch_notes.size() < 5)
                g.mismatch_notes.push_back("run " + std::to_string(kv.first) + ": " + (it == g.first_digest.end() ? "?" : it->second) + " vs " + kv.second);
        }
    }
    if (!digest_log.empty()) {
        std::string s;
        for (auto &kv : g.first_digest)
            s += std::to_string(kv.first) + " " + kv.second + "\n";
        write_file(digest_log, s);
    }
    double sweep_s = now_s() - t0;

    // ---- classify against known findings
    std::vector<Known> known = load_known();
    std::vector<std::pair<int64_t, Violation>> fresh;
    Json classes_json = Json::array();
    for (auto &kv : g.classes) {
        bool is_known = false;
        for (auto &k : known)
            if (known_matches(k, prop, kv.second.first)) {
                k.hit = true;
                is_known = true;
            }
        Json c = viol_json(kv.second.first);
        c.set("first_run", (long long)kv.second.idx);
        c.set("runs", (long long)kv.second.count);
        c.set("known", is_known);
        classes_json.push(c);
        if (!is_known)
            fresh.emplace_back(kv.second.idx, kv.second.first);
    }
    std::sort(fresh.begin(), fresh.end(), [](const std::pair<int64_t, Violation> &a, const std::pair<int64_t, Violation> &b) { return a.first < b.first; });
    Json known_hit = Json::array();
    for (auto &k : known)
        if (k.hit) {
            printf("KNOWN-FINDING: property=%s %s [%s]\n", prop.c_str(), k.what.c_str(),
                   (k.cls.gets("invariant") + "|" + k.cls.gets("kind") + "|" + k.cls.gets("site") + "|" + k.cls.gets("trigger")).c_str());
            known_hit.push(k.what);
        }

    // ---- minimise and write replay files for fresh classes
    std::vector<std::string> replay_lines;
    size_t max_shrink = tier ? 8 : 4;
    if (!fresh.empty() && !no_shrink) {
        size_t n = std::min(fresh.size(), max_shrink);
        std::vector<int> fds(n);
        std::vector<pid_t> sp(n);
        fflush(stdout);
        for (size_t q = 0; q < n; ++q) {
            int pfd[2];
            if (pipe(pfd) != 0) {
                perror("pipe");
                return 2;
            }
            pid_t pid = fork();
            if (pid == 0) {
                close(pfd[0]);
                shrink_one(w, prop, tier, root_seed, fresh[q].first, fresh[q].second, pfd[1]);
                _exit(0);
            }
            close(pfd[1]);
            fds[q] = pfd[0];
            sp[q] = pid;
        }
        for (size_t q = 0; q < n; ++q) {
            std::string s;
            char b[4096];
            ssize_t r;
            while ((r = read(fds[q], b, sizeof b)) > 0)
                s.append(b, (size_t)r);
            close(fds[q]);
            int st;
            while (waitpid(sp[q], &st, 0) < 0 && errno == EINTR) {}
            if (s.compare(0, 3, "OK ") == 0) {
                replay_lines.push_back(s.substr(3));
            } else {
                harness_fault = true;
                harness_msg += " shrink: " + (s.empty() ? std::string("shrinker died for run ") + std::to_string(fresh[q].first) : s);
            }
        }
    }

    // ---- evidence
    double wall = now_s() - t0;
    {
        Json ev = Json::object();
        ev.set("property_id", prop);
        ev.set("tier", tier ? "thorough" : "quick");
        ev.set("seed", (long long)root_seed);
        ev.set("level", w->level(prop));
        Json cov = Json::object();
        cov.set("evaluations", (long long)g.evals);
        cov.set("distinct_nontrivial", (long long)g.distinct_plans.size());
        cov.set("rule", w->rule(prop));
        Json samples = Json::array();
        for (auto &kv : g.samples) {
            if (samples.a.size() >= 3)
                break;
            Json s = Json::object();
            s.set("run_index", (long long)kv.first);
            s.set("plan", kv.second);
            samples.push(s);
        }
        cov.set("samples", samples);
        cov.set("technique", "deterministic simulation with fault injection: seeded search over schedules and fault sequences");
        cov.set("nontrivial_runs", (long long)g.nontrivial_runs);
        cov.set("oracle_checks", (long long)g.checks);
        cov.set("runs_per_hour", sweep_s > 0 ? (long long)(g.evals / sweep_s * 3600.0) : 0);
        cov.set("seeds_per_hour", sweep_s > 0 ? (long long)(g.evals / sweep_s * 3600.0) : 0);
        cov.set("simulated_seconds", g.sim_seconds);
        cov.set("fault_counts", map_json(g.faults));
        cov.set("probes", map_json(g.probes));
        cov.set("distinct_abstract_traces", (long long)g.traces.size());
        cov.set("components", w->components(prop));
        Json det = Json::object();
        det.set("seeds_rerun_in_another_worker", (long long)g.rechecked);
        det.set("mismatches", (long long)g.mismatches);
        cov.set("determinism", det);
        cov.set("workers", workers);
        cov.set("known_findings_hit", known_hit);
        cov.set("other_observations", map_json(g.other));
        cov.set("violation_classes", classes_json);
        cov.set("exhaustive", false);
        ev.set("coverage", cov);
        Json as = Json::array();
        for (auto &a : w->assumptions(prop))
            as.push(a);
        as.push("a clean batch of seeded runs is evidence, not proof: schedules and faults are sampled, not enumerated");
        as.push("library built from " + repo_root() + " with clang -O1 -g, asserts on, variant " + w->variant(prop));
        ev.set("assumptions", as);
        ev.set("wall_s", wall);
        ev.set("violations", (long long)fresh.size());
        mkdir((verif_root() + "/evidence").c_str(), 0777);
        write_file(verif_root() + "/evidence/" + prop + ".json", dump_pretty(ev) + "\n");
    }

    printf("SUMMARY property=%s runs=%lld nontrivial_distinct=%lld traces=%lld checks=%lld sim_s=%.1f wall_s=%.1f rerun=%lld mismatches=%lld classes=%zu fresh=%zu\n",
           prop.c_str(), (long long)g.evals, (long long)g.distinct_plans.size(), (long long)g.traces.size(), (long long)g.checks, g.sim_seconds, wall,
           (long long)g.rechecked, (long long)g.mismatches, g.classes.size(), fresh.size());
    for (auto &kv : g.classes) {
        bool is_fresh = false;
        for (auto &f : fresh)
            if (f.second.cls() == kv.first)
                is_fresh = true;
        printf("  class %s  %s runs=%lld first=%lld  %s\n", kv.first.c_str(), is_fresh ? "NEW" : "listed", (long long)kv.second.count, (long long)kv.second.idx,
               kv.second.first.detail.substr(0, 200).c_str());
    }
    if (g.mismatches) {
        harness_fault = true;
        harness_msg += " nondeterminism:";
        for (auto &m : g.mismatch_notes)
            harness_msg += " [" + m + "]";
    }
    if (harness_fault) {
        printf("HARNESS-FAULT property=%s %s\n", prop.c_str(), harness_msg.c_str());
        return 2;
    }
    if (!fresh.empty()) {
        if (no_shrink) {
            for (auto &f : fresh)
                printf("VIOLATION property=%s replay=none class=%s run=%lld\n", prop.c_str(), f.second.cls().c_str(), (long long)f.first);
            return 1;
        }
        for (auto &r : replay_lines) {
            size_t t1 = r.find('\t');
            size_t t2 = r.find('\t', t1 + 1);
            std::string path = r.substr(0, t1), cls = r.substr(t1 + 1, t2 - t1 - 1), det = r.substr(t2 + 1);
            if (!det.empty() && det.back() == '\n')
                det.pop_back();
            printf("VIOLATION property=%s replay=%s\n  class %s\n  %s\n", prop.c_str(), path.c_str(), cls.c_str(), det.c_str());
        }
        if (fresh.size() > replay_lines.size())
            printf("  (%zu further violation classes not minimised in this run)\n", fresh.size() - replay_lines.size());
        return 1;
    }
    return 0;
}

} // namespace sim

using namespace sim;

static void usage()
{
    fprintf(stderr,
            "usage: sim <property> quick|thorough [--runs N] [--workers W] [--seed S] [--digests FILE] [--no-shrink]\n"
            "       sim --replay FILE\n"
            "       sim --gen <property> quick|thorough <run-index>     print the plan of one run\n"
            "       sim --list\n");
}

int main(int argc, char **argv)
{
    {
        void *warm[2];
        (void)backtrace(warm, 2); // loads the unwinder now, so that the watchdog handler does not allocate
    }
    setvbuf(stdout, nullptr, _IOLBF, 0);
    signal(SIGPIPE, SIG_IGN);
    if (argc < 2) {
        usage();
        return 2;
    }
    std::string a1 = argv[1];
    uint64_t seed = 1;
    if (const char *e = getenv("VERIF_SEED"))
        if (*e)
            seed = strtoull(e, nullptr, 0);
    if (a1 == "--list") {
        for (World *w : worlds())
            for (auto &p : w->properties())
                printf("%s %s %s\n", p.c_str(), w->name(), w->variant(p).c_str());
        return 0;
    }
    if (a1 == "--replay") {
        if (argc < 3) {
            usage();
            return 2;
        }
        return do_replay(argv[2], true);
    }
    if (a1 == "--gen") {
        if (argc < 5) {
            usage();
            return 2;
        }
        World *w = world_for(argv[2]);
        if (!w)
            return 2;
        int tier = !strcmp(argv[3], "thorough");
        w->setup(argv[2], tier);
        int64_t idx = atoll(argv[4]);
        Json p = w->generate_indexed(argv[2], run_seed(seed, argv[2], idx), tier, idx);
        printf("%s\n", dump_pretty(p).c_str());
        return 0;
    }
    if (argc < 3) {
        usage();
        return 2;
    }
    std::string prop = a1;
    int tier = !strcmp(argv[2], "thorough");
    if (const char *e = getenv("VERIF_TIER"))
        if (*e)
            tier = !strcmp(e, "thorough");
    int64_t runs = 0;
    int workers = 0;
    std::string digests;
    bool no_shrink = false;
    if (const char *e = getenv("VERIF_RUNS"))
        runs = atoll(e);
    if (const char *e = getenv("VERIF_WORKERS"))
        workers = atoi(e);
    for (int k = 3; k < argc; ++k) {
        std::string a = argv[k];
        if (a == "--runs" && k + 1 < argc)
            runs = atoll(argv[++k]);
        else if (a == "--workers" && k + 1 < argc)
            workers = atoi(argv[++k]);
        else if (a == "--seed" && k + 1 < argc)
            seed = strtoull(argv[++k], nullptr, 0);
        else if (a == "--digests" && k + 1 < argc)
            digests = argv[++k];
        else if (a == "--no-shrink")
            no_shrink = true;
        else {
            usage();
            return 2;
        }
    }
    return do_sweep(prop, tier, runs, workers, seed, digests, no_shrink);
}
